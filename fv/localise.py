"""Developer tool: re-run a replay's IR program with the dispatch monitor and print the firing tree with verdicts.
usage: python -m fv.localise <replay.json> [route]    route: eager (default) | lazy-reinterpret | normalize | optimizer
"""
import json
import sys

import numpy as np


def retuple(x):
    if isinstance(x, (list, tuple)):
        return tuple(retuple(y) for y in x)
    return x


def run(P, route="eager"):
    import funsor
    from funsor.interpretations import lazy, normalize, reflect

    from .build import build
    from .dispatchmon import check_firing, describe_firing, get_monitor, innermost_culprits
    from .ir import show

    funsor.set_backend("numpy")
    mon = get_monitor()
    print("program:", show(P))
    mon.start()
    try:
        with np.errstate(all="ignore"):
            if route == "eager":
                R = build(P)
            elif route == "normalize":
                with normalize:
                    R = build(P)
                R = funsor.reinterpret(R)
            elif route == "optimizer":
                from funsor.optimizer import apply_optimizer

                with lazy:
                    R = build(P)
                R = apply_optimizer(R)
            else:
                with lazy:
                    R = build(P)
                R = funsor.reinterpret(R)
    except Exception as e:
        print("raised", type(e).__name__, e)
        R = None
    fs = mon.stop()
    verdicts = {}
    for f in fs:
        v = check_firing(f)
        verdicts[f.index] = v
    culprits = set(innermost_culprits(fs, verdicts))
    for f in fs:
        v = verdicts[f.index]
        if v.status == "none":
            continue
        mark = "**CULPRIT**" if f.index in culprits else v.status.upper() if v.status != "ok" else "ok"
        print("%s[%s] %s %s %s" % ("  " * f.depth, f.interp, mark, describe_firing(f, 700), ("-- " + str(v.detail)) if v.detail else ""))
    return R


if __name__ == "__main__":
    from .common import dec

    rep = json.load(open(sys.argv[1]))
    P = retuple(dec(rep["violation"]["case"]))
    run(P, sys.argv[2] if len(sys.argv) > 2 else "eager")
