"""setup_cmd: verifies the harness can run offline against /repo's working tree. Nothing is built or installed."""
import os
import sys


def main():
    here = os.path.dirname(os.path.dirname(os.path.abspath(__file__)))
    if here not in sys.path:
        sys.path.insert(0, here)
    import numpy
    import scipy

    import funsor

    funsor.set_backend("numpy")
    repo = os.environ.get("FV_REPO", "/repo")
    assert os.path.realpath(funsor.__file__).startswith(os.path.realpath(repo) + os.sep), funsor.__file__
    print("python", sys.version.split()[0], "numpy", numpy.__version__, "scipy", scipy.__version__, "funsor from", funsor.__file__)
    import importlib
    import glob

    n = 0
    for p in sorted(glob.glob(os.path.join(here, "fv", "checks", "c[0-9][0-9].py"))):
        importlib.import_module("fv.checks." + os.path.basename(p)[:-3])
        n += 1
    print("check modules importable:", n)
    os.makedirs(os.path.join(here, "evidence"), exist_ok=True)
    os.makedirs(os.path.join(here, "replays"), exist_ok=True)
    return 0


if __name__ == "__main__":
    sys.exit(main())
