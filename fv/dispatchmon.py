"""M02 dispatch monitor: intercepts every rule lookup of every DispatchedInterpretation (instance attribute `dispatch`)
and every SubstituteInterpretation.interpret step; firings are recorded and checked offline against the reference semantics.
"""
import collections

import numpy as np

from .common import close, digest, has_nan, short
from .ir import IllConditioned, IllTyped, Unsupported, kinds_in, show, typecheck
from .lift import lift, lift_call
from .refsem import all_envs, ref_eval

EXACT = ("eager", "normalize", "lazy", "sequential", "unfold", "optimize", "subs", "moment_matching", "compress_gaussians")


class Firing:
    __slots__ = ("interp", "cls", "fn", "args", "result", "depth", "parent", "index", "types", "subs", "fresh")

    def __init__(self, interp, cls, fn, args, result, depth, parent, index, subs=None):
        self.interp = interp
        self.cls = cls
        self.fn = fn
        self.args = args
        self.result = result
        self.depth = depth
        self.parent = parent
        self.index = index
        self.subs = subs
        self.fresh = None

    @property
    def rule(self):
        fn = self.fn
        if isinstance(fn, str):
            return fn
        fn = getattr(fn, "fn", fn)  # WeakPartial / debug wrappers
        if type(fn).__name__ == "PartialDefault":  # the registry's fall-back wrapper: name it by the wrapped default, not by its address
            d = getattr(fn, "default", None)
            return "default:%s.%s" % (getattr(d, "__module__", "?"), getattr(d, "__qualname__", getattr(d, "__name__", type(d).__name__)))
        return "%s.%s" % (getattr(fn, "__module__", "?"), getattr(fn, "__qualname__", getattr(fn, "__name__", repr(fn))))


class DispatchMonitor:
    def __init__(self):
        self.firings = []
        self.stack = []
        self.enabled = True
        self.recording = False
        self.dispatches = 0        # every lookup, including those returning None
        self.none_results = collections.Counter()
        self.types_seen = {}       # (interp name, cls name, arg types) -> chosen fn  (for C16)
        self.installed = []
        self.max_firings = 4000
        self.on_args = None       # optional callback(args) invoked before each rule runs (used by the mutation monitor)

    # ------------------------------------------------------------------
    def install(self):
        import funsor.interpretations as I
        import funsor.optimizer as O
        import funsor.terms as T

        targets = [("eager", I.eager_base), ("normalize", I.normalize_base), ("lazy", I.lazy_base), ("sequential", I.sequential_base),
                   ("moment_matching", I.moment_matching_base), ("compress_gaussians", I.compress_gaussians_base),
                   ("unfold", O.unfold_base), ("optimize", O.optimize_base)]
        for name, interp in targets:
            if getattr(interp.dispatch, "_fv_wrapped", False):
                continue
            self._wrap(name, interp)
        if not getattr(T.SubstituteInterpretation.interpret, "_fv_wrapped", False):
            self._wrap_subs(T.SubstituteInterpretation)
        return self

    def _wrap(self, name, interp):
        orig = interp.dispatch
        mon = self

        def dispatch(cls, *args):
            fn = orig(cls, *args)
            mon.dispatches += 1
            if not mon.recording:
                return fn

            def run(*a):
                if mon.on_args is not None:
                    mon.on_args(a)
                idx = len(mon.firings)
                parent = mon.stack[-1] if mon.stack else None
                mon.stack.append(idx)
                placeholder = Firing(name, cls, fn, a, None, len(mon.stack), parent, idx)
                mon.firings.append(placeholder)
                try:
                    r = fn(*a)
                finally:
                    mon.stack.pop()
                placeholder.result = r
                if r is None:
                    mon.none_results[placeholder.rule] += 1
                return r

            return run

        dispatch._fv_wrapped = True
        interp.dispatch = dispatch
        self.installed.append(name)

    def _wrap_subs(self, klass):
        orig = klass.interpret
        mon = self

        def interpret(self_, cls, *args):
            if not mon.recording:
                return orig(self_, cls, *args)
            idx = len(mon.firings)
            parent = mon.stack[-1] if mon.stack else None
            mon.stack.append(idx)
            f = Firing("subs", cls, "funsor.terms.SubstituteInterpretation.interpret", args, None, len(mon.stack), parent, idx, subs=self_.subs)
            f.fresh = getattr(self_, "fresh", None)  # names fresh in the node being rebuilt (children were substituted already)
            mon.firings.append(f)
            try:
                r = orig(self_, cls, *args)
            finally:
                mon.stack.pop()
            f.result = r
            return r

        interpret._fv_wrapped = True
        klass.interpret = interpret
        self.installed.append("subs")

    # ------------------------------------------------------------------
    def start(self):
        self.firings = []
        self.stack = []
        self.recording = True

    def stop(self):
        self.recording = False
        fs = self.firings
        self.firings = []
        return fs


_MON = None


def get_monitor():
    global _MON
    if _MON is None:
        _MON = DispatchMonitor().install()
    return _MON


# ---------------------------------------------------------------------------
# offline check of one firing


SEMIRING_INTERPS = ("normalize", "unfold", "optimize")


def _leaves_negative(ir):
    """True if some tensor/number leaf is negative or a free real variable is not under abs/exp (coarse carrier test)"""
    neg = [False]

    def walk(x, guarded):
        if not isinstance(x, tuple) or not x:
            return
        k = x[0]
        if k == "ten":
            d = np.asarray(x[1])
            if d.dtype.kind == "f" and (d < 0).any():
                neg[0] = True
            return
        if k == "num":
            if isinstance(x[1], float) and x[1] < 0:
                neg[0] = True
            return
        if k == "var":
            if x[2][0] == "real" and not guarded:
                neg[0] = True
            return
        if k == "un":
            if x[1] in ("neg", "log", "tanh", "atanh", "log1p"):
                neg[0] = True
            walk(x[3], guarded or x[1] in ("abs", "exp", "sigmoid"))
            return
        if k == "bin" and x[1] in ("sub", "logaddexp"):
            neg[0] = True
        if k in ("gauss", "delta"):
            neg[0] = True
            return
        for c in x[1:]:
            if isinstance(c, tuple):
                if c and isinstance(c[0], str):
                    walk(c, guarded)
                else:
                    for cc in c:
                        if isinstance(cc, tuple):
                            if cc and isinstance(cc[0], str):
                                walk(cc, guarded)
                            else:
                                for ccc in cc:
                                    if isinstance(ccc, tuple):
                                        walk(ccc, guarded)

    walk(ir, False)
    return neg[0]


def out_of_carrier(lhs, rhs):
    ks = set(kinds_in(lhs)) | set(kinds_in(rhs))
    ops_used = set()
    for k in ks:
        if ":" in k:
            tag, rest = k.split(":", 1)
            for o in rest.split(","):
                ops_used.add(o)
    if ops_used & {"max", "min"} and ops_used & {"mul", "truediv", "pow", "prod", "safediv"}:
        if _leaves_negative(lhs):
            return "max/min with mul on possibly negative data"
    return None


class FiringVerdict:
    __slots__ = ("status", "kind", "detail", "points", "identity")

    def __init__(self, status, kind=None, detail=None, points=0, identity=False):
        self.status, self.kind, self.detail, self.points, self.identity = status, kind, detail, points, identity


def eval_cost(ir, cap=10 ** 9):
    """deterministic estimate of the reference evaluator's work for one point: nodes, each weighted by the sizes of the reductions
    enclosing it (the lifted IR is a tree: shared sub-terms are counted once per occurrence, as they are evaluated)"""
    def walk(x):
        if not isinstance(x, tuple):
            return 0
        if x and isinstance(x[0], str):
            tag = x[0]
            if tag == "ten":
                return 1
            c = 1 + sum(walk(y) for y in x[1:])
            mult = 1
            if tag == "red" and len(x) > 3:
                for _n, d in x[3]:
                    mult *= int(d[0]) if d[0] != "real" else 1
            elif tag == "contr" and len(x) > 3:
                for _n, d in x[3]:
                    mult *= int(d[0]) if d[0] != "real" else 1
            return min(cap, c * mult)
        return min(cap, sum(walk(y) for y in x))

    try:
        return walk(ir)
    except Exception:
        return 0


def check_firing(f, rng=None, max_points=48, max_cost=None):
    if f.result is None:
        return FiringVerdict("none")
    try:
        if f.interp == "subs":
            base = lift_call(f.cls, f.args)
            try:
                free = typecheck(base)[0]
            except (IllTyped, Unsupported) as e:
                return FiringVerdict("undecided", "typecheck", str(e))
            # only substitutions of *fresh* names are applied at this step; children were substituted already
            from funsor.typing import get_origin

            lhs_term_fresh = None
            lhs = base
            rhs = lift(f.result)
            # the step's contract: result == cls(*args) with `subs` applied to the names still free in it
            subs = tuple((k, lift(v)) for k, v in f.subs if k in free and (f.fresh is None or k in f.fresh))
            if subs:
                lhs = ("sub", base, subs)
        else:
            lhs = lift_call(f.cls, f.args)
            rhs = lift(f.result)
    except Unsupported as e:
        return FiringVerdict("undecided", "lift", str(e))
    except Exception as e:
        return FiringVerdict("undecided", "lift-error", "%s: %s" % (type(e).__name__, e))
    try:
        li, lo = typecheck(lhs)
        ri, ro = typecheck(rhs)
    except (IllTyped, Unsupported) as e:
        return FiringVerdict("undecided", "typecheck", str(e))
    if max_cost is not None and eval_cost(lhs) + eval_cost(rhs) > max_cost:
        return FiringVerdict("undecided", "too-costly", "reference evaluation of this firing exceeds the localiser's budget")
    ident = False
    try:
        ident = digest(lhs) == digest(rhs)
    except Exception:
        pass
    kinds = set(kinds_in(lhs)) | set(kinds_in(rhs))
    if f.interp in SEMIRING_INTERPS or f.interp == "subs" or any(k.startswith("contr") for k in kinds):
        why = out_of_carrier(lhs, rhs)
        if why:
            return FiringVerdict("out-of-carrier", None, why)
    if lo[1] != ro[1] or (lo[0] == "real") != (ro[0] == "real"):
        return FiringVerdict("bad", "output-domain", "rule result has output %s, replaced term has %s" % (ro, lo), identity=ident)
    extra = [k for k in ri if k not in li]
    if extra:
        return FiringVerdict("bad", "extra-input", "rule result depends on inputs %s the replaced term lacks %s" % (extra, list(li)), identity=ident)
    for k in ri:
        if ri[k] != li[k]:
            return FiringVerdict("bad", "input-domain", "input %s has domain %s in the result and %s in the replaced term" % (k, ri[k], li[k]), identity=ident)
    n = 0
    try:
        for env in all_envs(li, rng, nreal=2, limit=max_points):
            try:
                with np.errstate(all="ignore"):
                    a = ref_eval(lhs, env)
                if has_nan(a):
                    continue
                with np.errstate(all="ignore"):
                    b = ref_eval(rhs, env)
            except IllConditioned:
                continue
            n += 1
            if not close(b, a):
                return FiringVerdict("bad", "value", "at %s the replaced term is %s but the rule's result is %s" % (
                    short({k: (v.tolist() if isinstance(v, np.ndarray) else v) for k, v in env.items()}, 160),
                    short(np.asarray(a).tolist(), 120), short(np.asarray(b).tolist(), 120)), points=n, identity=ident)
    except Unsupported as e:
        return FiringVerdict("undecided", "oracle", str(e), points=n, identity=ident)
    except IllTyped as e:
        return FiringVerdict("undecided", "illtyped-eval", str(e), points=n, identity=ident)
    except (KeyError, IndexError, ValueError, TypeError, ZeroDivisionError, OverflowError) as e:
        return FiringVerdict("undecided", "oracle-error", "%s: %s" % (type(e).__name__, e), points=n, identity=ident)
    if n == 0:
        return FiringVerdict("undecided", "no-defined-point", identity=ident)
    return FiringVerdict("ok", points=n, identity=ident)


def describe_firing(f, maxlen=500):
    try:
        if f.interp == "subs":
            lhs = show(lift_call(f.cls, f.args)) + " with subs " + ", ".join("%s=%s" % (k, show(lift(v))) for k, v in f.subs)
        else:
            lhs = show(lift_call(f.cls, f.args))
    except Exception as e:
        lhs = "<%s: %s>" % (type(e).__name__, e)
    try:
        rhs = show(lift(f.result)) if f.result is not None else "None"
    except Exception as e:
        rhs = "<%s>" % type(f.result).__name__
    return ("%s  %s  =>  %s" % (f.rule, lhs, rhs))[:maxlen]


def innermost_culprits(firings, verdicts):
    """firings whose own check fails while no firing nested (transitively) inside them fails"""
    bad = {i for i, v in verdicts.items() if v.status == "bad"}
    has_bad_desc = set()
    for i in bad:
        p = firings[i].parent
        while p is not None:
            has_bad_desc.add(p)
            p = firings[p].parent
    return sorted(i for i in bad if i not in has_bad_desc)
