"""Worker: runs one shard of one check in a fresh process. python -m fv.worker <ID> <shard.json> <out.json>"""
import importlib
import json
import os
import sys
import warnings


def main():
    check_id, spec, out = sys.argv[1:4]
    with open(spec) as f:
        shard = json.load(f)
    warnings.simplefilter("ignore")
    import numpy as np

    np.seterr(all="ignore")
    import funsor

    funsor.set_backend("numpy")
    repo = os.environ.get("FV_REPO", "/repo")
    assert os.path.realpath(funsor.__file__).startswith(os.path.realpath(repo) + os.sep), (
        "funsor imported from %s, expected under %s" % (funsor.__file__, repo))
    from .common import Result

    mod = importlib.import_module("fv.checks." + check_id.lower())
    res = Result()
    if "replay" in shard and hasattr(mod, "replay"):
        mod.replay(shard["replay"], res)
    else:
        mod.run_shard(shard, res)
    with open(out + ".tmp", "w") as f:
        json.dump(res.to_json(), f)
    os.replace(out + ".tmp", out)


if __name__ == "__main__":
    main()
