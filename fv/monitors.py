"""Run-time monitors attached by attribute replacement inside worker processes (no repository edits).

M17 stack invariant, M20 mutation monitor, M06 type monitor, M02 dispatch monitor, M03 memo monitor.
Single-threaded; monitor state is plain Python data.
"""
import collections
import hashlib

import numpy as np


# ---------------------------------------------------------------------------
# M20 mutation monitor


def array_hash(a):
    a = np.asarray(a)
    h = hashlib.sha1()
    h.update(str((a.shape, a.dtype.str)).encode())
    h.update(np.ascontiguousarray(a).tobytes())
    return h.hexdigest()[:16]


def ir_arrays(ir, acc=None):
    if acc is None:
        acc = []
    if isinstance(ir, np.ndarray):
        acc.append(ir)
    elif isinstance(ir, (tuple, list)):
        for c in ir:
            ir_arrays(c, acc)
    elif isinstance(ir, dict):
        for c in ir.values():
            ir_arrays(c, acc)
    return acc


class MutationMonitor:
    """Write-protects leaf arrays and re-checks content hashes of arrays and funsors the harness holds."""

    def __init__(self):
        self.arrays = []      # (array, hash)
        self.funsors = []     # (funsor, snapshot)
        self.checked = 0
        self.protected = 0

    def protect(self, obj):
        for a in ir_arrays(obj):
            if a.flags.writeable:
                try:
                    a.flags.writeable = False
                    self.protected += 1
                except ValueError:
                    pass
            self.arrays.append((a, array_hash(a)))

    @staticmethod
    def snap_funsor(f):
        data = getattr(f, "data", None)
        extra = []
        for attr in ("white_vec", "prec_sqrt"):
            v = getattr(f, attr, None)
            if isinstance(v, np.ndarray):
                extra.append(array_hash(v))
        return (tuple((k, str(v)) for k, v in f.inputs.items()), str(f.output),
                array_hash(data) if isinstance(data, np.ndarray) else repr(data) if data is not None and not callable(data) else None, tuple(extra))

    def hold(self, f):
        try:
            self.funsors.append((f, self.snap_funsor(f)))
        except Exception:
            pass

    def verify(self, clear=True):
        """returns list of human-readable mutation reports"""
        bad = []
        for a, h in self.arrays:
            self.checked += 1
            if array_hash(a) != h:
                bad.append("array of shape %s changed in place" % (a.shape,))
        for f, s in self.funsors:
            self.checked += 1
            try:
                now = self.snap_funsor(f)
            except Exception as e:  # pragma: no cover
                bad.append("held funsor became unreadable: %s" % e)
                continue
            if now != s:
                which = [n for n, x, y in zip(("inputs", "output", "data", "aux"), s, now) if x != y]
                bad.append("held %s changed its %s" % (type(f).__name__, "/".join(which)))
        if clear:
            self.arrays = []
            self.funsors = []
        return bad


# ---------------------------------------------------------------------------
# M17 stack monitor


class LoggingStack(list):
    """drop-in replacement for funsor.interpreter._STACK that logs pushes and pops"""

    def __init__(self, *a):
        super().__init__(*a)
        self.log = []
        self.pushes = 0
        self.pops = 0
        self.keep_log = False

    def append(self, x):
        self.pushes += 1
        if self.keep_log:
            self.log.append(("push", x))
        return super().append(x)

    def pop(self, *a):
        self.pops += 1
        x = super().pop(*a)
        if self.keep_log:
            self.log.append(("pop", x))
        return x


def install_stack_monitor():
    import funsor.interpreter as interpreter

    if isinstance(interpreter._STACK, LoggingStack):
        return interpreter._STACK
    st = LoggingStack(interpreter._STACK)
    interpreter._STACK = st
    return st


def stack_quiescent_report(expected_depth=2):
    """invariant at quiescent points: [reflect, eager]"""
    import funsor.interpreter as interpreter
    from funsor.interpretations import eager, reflect

    st = interpreter._STACK
    if len(st) != expected_depth:
        return "interpretation stack has depth %d at a quiescent point (expected %d): %s" % (len(st), expected_depth, [repr(s) for s in st])
    if st[0] is not reflect or st[-1] is not eager:
        return "interpretation stack base is %s (expected [reflect, eager])" % [repr(s) for s in st]
    if isinstance(st, LoggingStack) and st.pushes != st.pops:
        return "unbalanced pushes/pops: %d/%d" % (st.pushes, st.pops)
    return None


def repair_stack():
    import funsor.interpreter as interpreter
    from funsor.interpretations import eager, reflect

    st = interpreter._STACK
    del st[:]
    list.append(st, reflect)
    list.append(st, eager)
    if isinstance(st, LoggingStack):
        st.pushes = st.pops = 0


class Riders:
    """cross-cutting monitors that ride on every engine: M17 quiescent invariant + M20"""

    def __init__(self, res):
        self.res = res
        self.mut = MutationMonitor()
        self.stack = install_stack_monitor()

    def before(self, *objs):
        for o in objs:
            self.mut.protect(o)

    def hold(self, *fs):
        for f in fs:
            self.mut.hold(f)

    def after(self, label):
        """returns (mutation reports, stack report)"""
        muts = self.mut.verify()
        self.res.count("M20:objects-rechecked", self.mut.checked)
        self.mut.checked = 0
        rep = stack_quiescent_report()
        self.res.count("M17:quiescent-checks")
        if rep:
            repair_stack()
        return muts, rep
