"""Dense log-quadratic reference model for Gaussian funsors: f(x) = -1/2 x'Px + x'eta + c per batch index.

Everything here is computed from the *generator's* parameters with numpy linear algebra, never from funsor fields.
"""
import itertools
import math
from collections import OrderedDict

import numpy as np


class Dense:
    """real_inputs: list of (name, shape); int_inputs: list of (name, size); params(int_env)->(P, eta, c)"""

    def __init__(self, int_inputs, real_inputs, params):
        self.int_inputs = list(int_inputs)
        self.real_inputs = list(real_inputs)
        self.params = params

    @property
    def dim(self):
        return sum(int(np.prod(s, dtype=int)) for _, s in self.real_inputs)

    def offsets(self):
        out, o = {}, 0
        for n, s in self.real_inputs:
            k = int(np.prod(s, dtype=int))
            out[n] = (o, o + k)
            o += k
        return out

    def xvec(self, env):
        return np.concatenate([np.asarray(env[n], dtype=float).reshape(-1) for n, _ in self.real_inputs]) if self.real_inputs else np.zeros(0)

    def __call__(self, env):
        P, eta, c = self.params({n: int(env[n]) for n, _ in self.int_inputs})
        x = self.xvec(env)
        return float(-0.5 * x @ P @ x + x @ eta + c)

    def int_points(self):
        names = [n for n, _ in self.int_inputs]
        for pt in itertools.product(*[range(s) for _, s in self.int_inputs]):
            yield dict(zip(names, pt))

    # -- closed forms -----------------------------------------------------
    def marginalize(self, names):
        """log integral over the named real inputs -> Dense over the rest"""
        names = [n for n, _ in self.real_inputs if n in names]
        keep = [(n, s) for n, s in self.real_inputs if n not in names]
        off = self.offsets()
        b = np.concatenate([np.arange(*off[n]) for n in names]).astype(int)
        a = np.concatenate([np.arange(*off[n]) for n, _ in keep]).astype(int) if keep else np.zeros(0, dtype=int)

        def params(ienv):
            P, eta, c = self.params(ienv)
            Pbb = P[np.ix_(b, b)]
            Pba = P[np.ix_(b, a)]
            Paa = P[np.ix_(a, a)]
            sol = np.linalg.solve(Pbb, np.concatenate([eta[b][:, None], Pba], axis=1))
            s_eta, s_ba = sol[:, 0], sol[:, 1:]
            sign, logdet = np.linalg.slogdet(Pbb)
            c2 = c + 0.5 * eta[b] @ s_eta + 0.5 * len(b) * math.log(2 * math.pi) - 0.5 * logdet
            eta2 = eta[a] - Pba.T @ s_eta
            P2 = Paa - Pba.T @ s_ba
            return P2, eta2, c2

        return Dense(self.int_inputs, keep, params)

    def log_normalizer(self, ienv):
        P, eta, c = self.params(ienv)
        d = len(eta)
        if d == 0:
            return c
        sign, logdet = np.linalg.slogdet(P)
        return c + 0.5 * eta @ np.linalg.solve(P, eta) + 0.5 * d * math.log(2 * math.pi) - 0.5 * logdet

    def moments(self, ienv):
        """(log mass, mean, covariance) of exp(f)"""
        P, eta, c = self.params(ienv)
        cov = np.linalg.inv(P)
        return self.log_normalizer(ienv), cov @ eta, cov

    def min_eig(self, names=None):
        """smallest eigenvalue of the precision block of the named real inputs over all batch points"""
        off = self.offsets()
        names = [n for n, _ in self.real_inputs] if names is None else [n for n, _ in self.real_inputs if n in names]
        idx = np.concatenate([np.arange(*off[n]) for n in names]).astype(int)
        m = np.inf
        for ienv in self.int_points():
            P, _, _ = self.params(ienv)
            m = min(m, float(np.linalg.eigvalsh(P[np.ix_(idx, idx)]).min()))
        return m


def add_dense(d1, d2):
    ints = list(d1.int_inputs) + [(n, s) for n, s in d2.int_inputs if n not in dict(d1.int_inputs)]
    reals = list(d1.real_inputs) + [(n, s) for n, s in d2.real_inputs if n not in dict(d1.real_inputs)]
    out = Dense(ints, reals, None)
    off = out.offsets()
    D = out.dim

    def embed(d, ienv):
        P, eta, c = d.params({n: ienv[n] for n, _ in d.int_inputs})
        idx = np.concatenate([np.arange(*off[n]) for n, _ in d.real_inputs]).astype(int)
        P2 = np.zeros((D, D))
        e2 = np.zeros(D)
        P2[np.ix_(idx, idx)] = P
        e2[idx] = eta
        return P2, e2, c

    def params(ienv):
        a = embed(d1, ienv)
        b = embed(d2, ienv)
        return a[0] + b[0], a[1] + b[1], a[2] + b[2]

    out.params = params
    return out


# ---------------------------------------------------------------------------
# generator


def well_conditioned(rng, dim, rank):
    """dim x rank factor with singular values in [0.5, 2]; rank deficiency is structural (fewer columns)"""
    k = min(dim, rank)
    if k == 0:
        return np.zeros((dim, rank))
    U, _ = np.linalg.qr(rng.standard_normal((dim, dim)))
    V, _ = np.linalg.qr(rng.standard_normal((rank, rank)))
    s = rng.uniform(0.5, 2.0, size=k)
    S = np.zeros((dim, rank))
    S[np.arange(k), np.arange(k)] = s
    return U @ S @ V.T


class GaussianSpec:
    """a Gaussian drawn by the generator, with funsor constructor kwargs and its Dense reference"""

    def __init__(self, inputs, kwargs, dense, label, rank):
        self.inputs = inputs          # OrderedDict name -> ("real", shape) | (size, ())
        self.kwargs = kwargs
        self.dense = dense
        self.label = label
        self.rank = rank

    def build(self):
        from funsor.gaussian import Gaussian

        from .build import to_domain

        inputs = OrderedDict((n, to_domain(d)) for n, d in self.inputs.items())
        return Gaussian(inputs=inputs, **self.kwargs)


def random_inputs(rng, max_real=3, max_int=2, names_real=("x", "y", "z"), names_int=("i", "j")):
    nreal = int(rng.integers(1, max_real + 1))
    nint = int(rng.integers(0, max_int + 1))
    shapes = [(), (), (2,), (3,), (2, 2)]
    items = [(n, ("real", shapes[int(rng.integers(len(shapes)))])) for n in names_real[:nreal]]
    items += [(n, (int(rng.integers(1, 4)), ())) for n in names_int[:nint]]
    order = rng.permutation(len(items))
    inputs = OrderedDict(items[i] for i in order)
    dim = sum(int(np.prod(d[1], dtype=int)) for d in inputs.values() if d[0] == "real")
    if dim > 6:
        # shrink the largest real input
        for n, d in list(inputs.items()):
            if d[0] == "real" and d[1] == (2, 2):
                inputs[n] = ("real", (2,))
    return inputs


def random_gaussian(rng, inputs=None, rank=None, param=None, full_rank=False):
    inputs = inputs if inputs is not None else random_inputs(rng)
    ints = [(n, d[0]) for n, d in inputs.items() if d[0] != "real"]
    reals = [(n, d[1]) for n, d in inputs.items() if d[0] == "real"]
    dim = sum(int(np.prod(s, dtype=int)) for _, s in reals)
    bshape = tuple(s for _, s in ints)
    if param is None:
        param = str(rng.choice(["white_vec+prec_sqrt", "white_vec+prec_sqrt", "mean+precision", "mean+covariance", "mean+scale_tril", "mean+prec_sqrt",
                                "info_vec+precision", "info_vec+covariance", "info_vec+scale_tril", "info_vec+prec_sqrt"]))
    loc, scale = param.split("+")
    if rank is None:
        rank = int(rng.integers(dim, 2 * dim + 2)) if full_rank else int(rng.integers(0, 2 * dim + 2))
    if scale != "prec_sqrt" or loc == "info_vec":
        rank = max(rank, dim) if scale == "prec_sqrt" else dim
    npts = int(np.prod(bshape, dtype=int))
    Q = np.stack([well_conditioned(rng, dim, rank) for _ in range(npts)]).reshape(bshape + (dim, rank))
    P = Q @ np.swapaxes(Q, -1, -2)
    kwargs = {}
    if scale == "prec_sqrt":
        kwargs["prec_sqrt"] = Q
    elif scale == "precision":
        kwargs["precision"] = P
    elif scale == "covariance":
        kwargs["covariance"] = np.linalg.inv(P)
    else:
        kwargs["scale_tril"] = np.linalg.cholesky(np.linalg.inv(P))
    if loc == "white_vec":
        w = np.round(rng.uniform(-1.5, 1.5, size=bshape + (rank,)), 2)
        kwargs["white_vec"] = w
        eta = (Q @ w[..., None])[..., 0]
        c = -0.5 * (w ** 2).sum(-1)
    elif loc == "mean":
        mu = np.round(rng.uniform(-1.5, 1.5, size=bshape + (dim,)), 2)
        kwargs["mean"] = mu
        eta = (P @ mu[..., None])[..., 0]
        c = -0.5 * (mu[..., None, :] @ P @ mu[..., None])[..., 0, 0]
    else:
        eta = np.round(rng.uniform(-1.5, 1.5, size=bshape + (dim,)), 2)
        kwargs["info_vec"] = eta
        c = -0.5 * (eta[..., None, :] @ np.linalg.inv(P) @ eta[..., None])[..., 0, 0]
    for v in kwargs.values():
        v.flags.writeable = False

    def params(ienv, P=P, eta=eta, c=c, ints=ints):
        idx = tuple(ienv[n] for n, _ in ints)
        return P[idx], eta[idx], float(c[idx])

    dense = Dense(ints, reals, params)
    return GaussianSpec(inputs, kwargs, dense, "%s rank=%d dim=%d" % (param, rank, dim), rank)


def random_point(rng, inputs):
    env = {}
    for n, d in inputs.items():
        if d[0] == "real":
            env[n] = np.round(rng.uniform(-1.5, 1.5, size=d[1]), 2)
        else:
            env[n] = int(rng.integers(d[0]))
    return env
