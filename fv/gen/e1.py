"""E1: typed random generator of tensor-algebra programs (IR), filtered through the independent typechecker."""
import numpy as np

from ..ir import IllTyped, Unsupported, typecheck

POOL = {"a": 1, "i": 2, "j": 3, "k": 2, "l": 3, "n": 4}
SHAPES = [(), (), (), (2,), (3,), (2, 3), (3, 2), (1,), (2, 2)]
GRID = np.arange(-2.0, 2.01, 0.25)


class Gen:
    def __init__(self, rng, real_vars=0.15, mode="free", nonneg=False, allow=None, absent_reduce=0.35, pool=None, fresh_names=True):
        self.rng = rng
        self.pool = dict(pool) if pool is not None else dict(POOL)
        self.fresh_names = fresh_names      # False: "fresh" names are drawn from the pool too (adversarial collisions)
        self.real_vars = real_vars          # probability weight of a free real variable leaf
        self.mode = mode                    # "free" | "arith" | "tropical" | "nonneg"
        self.nonneg = nonneg or mode == "nonneg"
        self.allow = allow                  # optional set of constructor kinds to use
        self.absent_reduce = absent_reduce
        self.counter = 0
        # "free" mode mixes max/min with mul on signed data, which is only meaningful when every intermediate result is a
        # ground tensor (no lazy remainder that normalisation could rewrite with a semiring law outside its carrier)
        self.ground = mode == "free"
        if self.ground:
            self.real_vars = 0.0

    # ------------------------------------------------------------------ helpers
    def choice(self, xs, p=None):
        return xs[int(self.rng.choice(len(xs), p=p))]

    def names(self, k=None, size=None):
        pool = [n for n in self.pool if size is None or self.pool[n] == size]
        if k is None:
            k = int(self.rng.integers(0, 4))
        k = min(k, len(pool))
        return [str(x) for x in self.rng.choice(pool, size=k, replace=False)] if k else []

    def same_size_names(self):
        """2-3 pool names, at least two of them of equal size"""
        by_size = {}
        for n, sz in self.pool.items():
            by_size.setdefault(sz, []).append(n)
        pairs = [v for v in by_size.values() if len(v) >= 2]
        if not pairs:
            return self.names(2)
        grp = self.choice(pairs)
        names = [str(x) for x in self.rng.choice(grp, size=2, replace=False)]
        if self.rng.random() < 0.4:
            rest = [n for n in self.pool if n not in names]
            if rest:
                names.insert(int(self.rng.integers(0, 3)), self.choice(rest))
        return names

    def permuted(self, names):
        names = list(names)
        if len(names) < 2:
            return names
        while True:
            p = [names[i] for i in self.rng.permutation(len(names))]
            if p != names:
                return p

    def fresh(self, prefix="z"):
        self.counter += 1
        if not self.fresh_names and prefix not in ("x", "d", "r", "u") and self.rng.random() < 0.8:
            return self.choice(list(self.pool))
        return "%s%d" % (prefix, self.counter)

    def data(self, shape):
        vals = self.rng.choice(GRID, size=shape)
        if self.nonneg:
            vals = np.abs(vals)
        return np.ascontiguousarray(vals, dtype=np.float64)

    def tensor(self, shape=(), names=None):
        if names is None:
            names = self.names()
        return ("ten", self.data(tuple(self.pool[n] for n in names) + tuple(shape)), tuple(names), "real")

    def int_tensor(self, size, names=None):
        if names is None:
            names = self.names(int(self.rng.integers(0, 3)))
        full = tuple(self.pool[n] for n in names)
        return ("ten", self.rng.integers(0, size, size=full).astype(np.int64), tuple(names), int(size))

    def ops_bin(self):
        if self.mode == "arith":
            return ["add", "sub", "mul", "add", "mul"]
        if self.mode == "tropical":
            return ["add", "max", "min", "add", "sub"]
        if self.mode == "nonneg":
            return ["mul", "max", "min", "add"]
        return ["add", "sub", "mul", "max", "min", "logaddexp", "truediv", "add", "mul"]

    def ops_un(self):
        if self.mode == "nonneg":
            return ["abs", "exp", "sigmoid"]
        if self.mode in ("arith", "tropical"):
            return ["neg", "abs", "exp", "tanh"]
        return ["neg", "abs", "exp", "sigmoid", "tanh", "log1p_abs", "sqrt_abs", "reciprocal_exp", "log_shift", "lgamma_shift", "atanh_half", "pos"]

    def ops_red(self):
        if self.mode == "arith":
            return ["add", "add", "logaddexp", "mul"]
        if self.mode == "tropical":
            return ["max", "min", "max"]
        if self.mode == "nonneg":
            return ["max", "min", "add"]
        return ["add", "mul", "max", "min", "logaddexp", "add"]

    # ------------------------------------------------------------------ integer-valued expressions of size `size`
    def integer(self, depth, size):
        if self.ground:
            c = self.rng.random()
            if c < 0.2:
                return ("num", int(self.rng.integers(size)), int(size))
            if c < 0.4:
                cands = [n for n in self.pool if self.pool[n] == size] + [self.fresh("v")]
                return ("var", self.choice(cands), (size, ()))
            if c < 0.55:
                start = int(self.rng.integers(0, size))
                stop = int(self.rng.integers(start + 1, size + 1))
                return ("slice", self.choice([self.fresh("s")] + list(self.pool)), start, stop, int(self.rng.integers(1, 3)), int(size))
            t = self.int_tensor(size, self.names(int(self.rng.integers(0, 3))))
            if depth > 0 and c > 0.8 and t[2]:
                k = t[2][0]
                return ("sub", t, ((k, self.int_tensor(self.pool[k], self.names(int(self.rng.integers(0, 2))))),))
            return t
        r = self.rng.random()
        if depth <= 0 or r < 0.3:
            c = self.rng.random()
            if c < 0.3:
                return ("num", int(self.rng.integers(size)), int(size))
            if c < 0.55:
                cands = [n for n in self.pool if self.pool[n] == size]
                if cands:
                    return ("var", self.choice(cands), (size, ()))
                return ("var", self.fresh("v"), (size, ()))
            if c < 0.7:
                return ("var", self.fresh("v"), (size, ()))
            return self.int_tensor(size)
        if r < 0.45:
            start = int(self.rng.integers(0, size))
            stop = int(self.rng.integers(start + 1, size + 1))
            step = int(self.rng.integers(1, 3))
            name = self.choice([self.fresh("s")] + list(self.pool))
            return ("slice", name, start, stop, step, int(size))
        if r < 0.75:
            # index tensor with a substitution applied
            t = self.int_tensor(size, self.names(int(self.rng.integers(1, 3))))
            return self.subs_of(t, depth - 1)
        if r < 0.9:
            # stack of integer expressions
            n = int(self.rng.integers(1, 4))
            name = self.choice([n for n in ("i", "k", "j") if n in self.pool] + [self.fresh("s")])
            return ("stack", name, tuple(self.integer(depth - 1, size) for _ in range(n)))
        t = self.int_tensor(size, self.names(int(self.rng.integers(1, 3))))
        return t

    # ------------------------------------------------------------------ substitutions
    def subs_of(self, e, depth):
        try:
            inputs, _ = typecheck(e)
        except (IllTyped, Unsupported):
            return e
        keys = [k for k in inputs]
        extra = [n for n in self.pool if n not in inputs]
        nkeys = int(self.rng.integers(1, 3))
        chosen = []
        for _ in range(nkeys):
            if keys and self.rng.random() < 0.85:
                k = self.choice(keys)
            elif extra:
                k = self.choice(extra)
            else:
                continue
            if k not in [c[0] for c in chosen]:
                chosen.append((k, inputs.get(k, (self.pool.get(k, 2), ()))))
        subs = []
        for k, dom in chosen:
            if dom[0] == "real":
                c = self.rng.random()
                if c < 0.5:
                    v = ("ten", self.data(dom[1]), (), "real")
                elif c < 0.75:
                    v = ("var", self.fresh("x"), dom)
                else:
                    v = ("bin", "add", (), ("bin", "mul", (), ("var", self.fresh("x"), dom), ("num", 0.5, "real")), ("ten", self.data(dom[1]), (), "real"))
                subs.append((k, v))
                continue
            if dom[1] != ():
                continue
            size = dom[0]
            c = self.rng.random()
            if c < 0.2:
                v = ("num", int(self.rng.integers(size)), int(size))
            elif c < 0.45:
                cands = [n for n in self.pool if self.pool[n] == size and n != k] + [self.fresh("z")]
                v = ("var", self.choice(cands), (size, ()))
            else:
                v = self.integer(depth, size)
            subs.append((k, v))
        if not subs:
            return e
        return ("sub", e, tuple(subs))

    # ------------------------------------------------------------------ real-valued expressions with event shape `shape`
    def real(self, depth, shape=()):
        shape = tuple(shape)
        if depth <= 0 or self.rng.random() < 0.12:
            return self.leaf(shape)
        kinds = ["un", "bin", "bin", "red", "red", "sub", "sub", "stack", "cat", "lam", "getitem", "outred", "reshape", "einsum",
                 "opstack", "getslice", "slicesub", "indep", "cmp", "lazyred", "matmul", "align"]
        if self.allow is not None:
            kinds = [k for k in kinds if k in self.allow] or ["bin"]
        kind = self.choice(kinds)
        f = getattr(self, "k_" + kind)
        for _ in range(4):
            e = f(depth, shape)
            if e is None:
                continue
            try:
                _, out = typecheck(e)
            except (IllTyped, Unsupported):
                continue
            if out == ("real", shape):
                return e
        return self.leaf(shape)

    def leaf(self, shape):
        pool = self.__dict__.setdefault("_leaf_pool", {})
        if pool.get(shape) and self.rng.random() < 0.08:
            return self.choice(pool[shape])      # the very same operand object used again
        t = self._leaf(shape)
        if t[0] == "ten":
            pool.setdefault(shape, []).append(t)
            if len(pool[shape]) > 6:
                pool[shape].pop(0)
        return t

    def _leaf(self, shape):
        r = self.rng.random()
        if r < self.real_vars:
            if self.rng.random() < 0.5 and shape == ():
                v = ("var", self.choice(["x", "y"]), ("real", ()))
                if self.mode == "tropical":
                    return ("bin", "add", (), self.tensor(()), v)
                return ("bin", "mul", (), self.tensor(()), ("un", "abs", (), v) if self.nonneg else v)
            v = ("var", self.choice(["x", "y"]) if shape == () else "w%s" % "_".join(map(str, shape)), ("real", shape))
            return ("un", "abs", (), v) if self.nonneg else v
        if r < self.real_vars + 0.08 and shape == ():
            v = float(self.rng.choice(GRID))
            return ("num", abs(v) if self.nonneg else v, "real")
        return self.tensor(shape)

    def k_un(self, depth, shape):
        op = self.choice(self.ops_un())
        e = self.real(depth - 1, shape)
        if op == "log1p_abs":
            return ("un", "log1p", (), ("un", "abs", (), e))
        if op == "sqrt_abs":
            return ("un", "sqrt", (), ("un", "abs", (), e))
        if op == "log_shift":
            return ("un", "log", (), ("bin", "add", (), ("un", "abs", (), e), ("num", 0.5, "real")))
        if op == "lgamma_shift":
            return ("un", "lgamma", (), ("bin", "add", (), ("un", "abs", (), e), ("num", 0.5, "real")))
        if op == "atanh_half":
            return ("un", "atanh", (), ("bin", "mul", (), ("un", "tanh", (), e), ("num", 0.5, "real")))
        if op == "reciprocal_exp":
            # reciprocal clips at the float maximum by design; keep its argument away from 0
            return ("un", "reciprocal", (), ("bin", "add", (), ("un", "exp", (), e), ("num", 0.5, "real")))
        return ("un", op, (), e)

    def k_bin(self, depth, shape):
        op = self.choice(self.ops_bin())
        c = self.rng.random()
        if c < 0.6 or shape == ():
            sl, sr = shape, shape
        elif c < 0.8:
            sl, sr = shape, ()
        else:
            sl, sr = (), shape
        if self.rng.random() < 0.08:
            # two leaf tensors over the same names listed in different orders (equal sizes where possible)
            names = self.same_size_names()
            l = self.tensor(sl, names)
            r = self.tensor(sr, self.permuted(names))
        else:
            l = self.real(depth - 1, sl)
            r = self.real(depth - 1, sr)
        if op == "truediv":
            r = ("un", "exp", (), r)
        return ("bin", op, (), l, r)

    def k_matmul(self, depth, shape):
        n = int(self.choice([1, 2, 3]))
        if len(shape) == 0:
            sl, sr = (n,), (n,)
        elif len(shape) == 1:
            sl, sr = ((shape[0], n), (n,)) if self.rng.random() < 0.5 else ((n,), (n, shape[0]))
        elif len(shape) == 2:
            sl, sr = (shape[0], n), (n, shape[1])
        else:
            return None
        if self.rng.random() < 0.35:
            names = self.same_size_names()
            l, r = self.tensor(sl, names), self.tensor(sr, self.permuted(names))
        else:
            l, r = self.real(depth - 1, sl), self.real(depth - 1, sr)
        return ("bin", "matmul", (), l, r)

    def k_align(self, depth, shape):
        """x.align(names): a permutation of the inputs (a lazy Align node when x is not a Tensor), then an operation on it"""
        e = self.real(depth - 1, shape)
        try:
            inputs, _ = typecheck(e)
        except (IllTyped, Unsupported):
            return None
        names = list(inputs)
        if len(names) < 2:
            return None
        perm = self.permuted(names)
        a = ("align", e, tuple(perm))
        other = self.real(depth - 1, shape if self.rng.random() < 0.6 else ())
        op = self.choice(["sub", "truediv", "add", "mul"] if self.mode in ("free", "arith") else self.ops_bin())
        if op == "truediv":
            return ("bin", op, (), other, ("un", "exp", (), a)) if self.rng.random() < 0.6 else ("bin", op, (), a, ("un", "exp", (), other))
        return ("bin", op, (), other, a) if self.rng.random() < 0.6 else ("bin", op, (), a, other)

    def k_cmp(self, depth, shape):
        # a comparison (bounded-integer valued) gating a real expression
        if self.mode not in ("free", "arith"):
            return None
        op = self.choice(["lt", "le", "gt", "ge", "eq", "ne"])
        gate = ("bin", op, (), self.real(depth - 1, shape), self.real(depth - 1, shape if self.rng.random() < 0.6 else ()))
        # the gate always multiplies: numpy adds two boolean arrays as logical-or (recorded finding, probed by C01's catalogue), and
        # normalisation may reassociate a sum so that two gates meet
        return ("bin", "mul", (), gate, self.real(depth - 1, shape))

    def k_lazyred(self, depth, shape):
        """a reduction whose reduced variable occurs in a lazy operand (a real variable indexed by it), so that the reduction survives
        eager evaluation as a lazy contraction; then an operation applied on top of it"""
        if self.ground or shape != ():
            return None
        v = self.choice([n for n in self.pool])
        size = self.pool[v]
        lazy_part = ("bin", "getitem", (("offset", 0),), ("var", "w%d" % size, ("real", (size,))), ("var", v, (size, ())))
        if self.nonneg:
            lazy_part = ("un", "abs", (), lazy_part)
        names = [n for n in self.names() if n != v]
        if self.rng.random() < 0.8:
            names.insert(int(self.rng.integers(0, len(names) + 1)), v)
        other = self.tensor((), names) if self.rng.random() < 0.7 else self.real(depth - 1, ())
        body = ("bin", self.choice(self.ops_bin()), (), other, lazy_part)
        if self.rng.random() < 0.5:
            body = ("bin", body[1], (), body[4], body[3])
        red = ("red", self.choice(self.ops_red()), body, ((v, (size, ())),))
        c = self.rng.random()
        if c < 0.45:
            return ("un", self.choice(["neg", "exp", "abs"] if not self.nonneg else ["exp", "abs"]), (), red)
        if c < 0.8:
            o = self.real(depth - 1, ())
            op = self.choice(self.ops_bin())
            return ("bin", op, (), o, red) if self.rng.random() < 0.5 else ("bin", op, (), red, o)
        return red

    def k_red(self, depth, shape):
        e = self.real(depth - 1, shape)
        try:
            inputs, _ = typecheck(e)
        except (IllTyped, Unsupported):
            return None
        present = [n for n, d in inputs.items() if d[0] != "real" and d[1] == ()]
        absent = [n for n in self.pool if n not in inputs]
        vs = []
        if present:
            k = int(self.rng.integers(1, min(3, len(present)) + 1))
            vs += [str(x) for x in self.rng.choice(present, size=k, replace=False)]
        if absent and (not vs or self.rng.random() < self.absent_reduce):
            vs.append(self.choice(absent))
        if not vs:
            return None
        doms = dict(inputs)
        return ("red", self.choice(self.ops_red()), e, tuple(sorted((n, doms.get(n, (self.pool.get(n, 2), ()))) for n in vs)))

    def k_sub(self, depth, shape):
        return self.subs_of(self.real(depth - 1, shape), depth - 1)

    def k_stack(self, depth, shape):
        n = int(self.rng.integers(1, 4))
        name = self.choice([n for n in ("i", "j", "k", "a") if n in self.pool] + [self.fresh("s")])
        return ("stack", name, tuple(self.real(depth - 1, shape) for _ in range(n)))

    def k_cat(self, depth, shape):
        n = int(self.rng.integers(1, 4))
        name = self.choice([n for n in ("i", "j", "k", "l", "n") if n in self.pool])
        part_name = name if self.rng.random() < 0.7 else self.choice([n for n in ("i", "j", "k", "l") if n in self.pool])
        parts = []
        for _ in range(n):
            p = self.real(depth - 1, shape)
            try:
                inputs, _ = typecheck(p)
            except (IllTyped, Unsupported):
                return None
            if part_name not in inputs:
                # multiply by a tensor that has the name
                p = ("bin", "add", (), p, self.tensor((), [part_name]))
            parts.append(p)
        return ("cat", name, tuple(parts), part_name)

    def k_lam(self, depth, shape):
        if not shape:
            return None
        cands = [n for n in self.pool if self.pool[n] == shape[0]]
        name = self.choice(cands + [self.fresh("b")]) if cands else self.fresh("b")
        e = self.real(depth - 1, shape[1:])
        if self.rng.random() < 0.6:
            try:
                inputs, _ = typecheck(e)
            except (IllTyped, Unsupported):
                return None
            if name not in inputs:
                e = ("bin", "add", (), e, ("ten", self.data((shape[0],)), (name,), "real"))
        return ("lam", name, int(shape[0]), e)

    def k_getitem(self, depth, shape):
        size = int(self.choice([1, 2, 3, 4]))
        nd = len(shape)
        offset = int(self.rng.integers(0, nd + 1))
        big = shape[:offset] + (size,) + shape[offset:]
        if len(big) > 3:
            return None
        if self.rng.random() < 0.25:
            # tensor indexed by a tensor with the same input names in a different order
            names = self.same_size_names()
            e = self.tensor(big, names)
            idx = self.int_tensor(size, self.permuted(names))
        else:
            e = self.real(depth - 1, big)
            idx = self.integer(depth - 1, size)
        if self.ground and idx[0] == "slice":
            idx = ("num", int(self.rng.integers(size)), size)  # Tensor[Slice] has no eager rule and would leave a lazy term
        sugar = int(self.rng.integers(0, 4))   # the python-level indexing forms x[:, t], x[..., t, :], x[:, t, ...] desugar to the same op
        return ("bin", "getitem", (("offset", offset),) + ((("sugar", sugar),) if sugar else ()), e, idx)

    def k_outred(self, depth, shape):
        extra = int(self.choice([2, 3]))
        nd = len(shape)
        if nd >= 2:
            return None
        op = self.choice(["sum", "prod", "amax", "amin", "logsumexp", "mean", "std", "var"])
        c = self.rng.random()
        if c < 0.5:
            pos = int(self.rng.integers(0, nd + 1))
            big = shape[:pos] + (extra,) + shape[pos:]
            axis = pos if self.rng.random() < 0.5 else pos - len(big)
            return ("un", op, (("axis", axis), ("keepdims", False)), self.real(depth - 1, big))
        if c < 0.7 and shape == ():
            big = self.choice([(2,), (3,), (2, 3), (3, 2)])
            return ("un", op, (("axis", None), ("keepdims", False)), self.real(depth - 1, big))
        if c < 0.85 and nd >= 1 and 1 in shape:
            pos = shape.index(1)
            big = shape[:pos] + (extra,) + shape[pos + 1:]
            return ("un", op, (("axis", pos), ("keepdims", True)), self.real(depth - 1, big))
        if shape == ():
            big = (2, 3)
            return ("un", op, (("axis", (0, 1)), ("keepdims", False)), self.real(depth - 1, big))
        return None

    def k_reshape(self, depth, shape):
        n = int(np.prod(shape, dtype=int))
        cands = {1: [(), (1,), (1, 1)], 2: [(2,), (1, 2), (2, 1)], 3: [(3,), (1, 3)], 4: [(2, 2), (4,)], 6: [(2, 3), (3, 2), (6,)]}.get(n)
        if not cands:
            return None
        src = self.choice([c for c in cands if c != shape] or cands)
        return ("un", "reshape", (("shape", tuple(shape)),), self.real(depth - 1, src))

    def k_einsum(self, depth, shape):
        table = {
            (): [("a,a->", [(2,), (2,)]), ("ab,ab->", [(2, 3), (2, 3)]), ("a->", [(3,)]), ("ab,b,a->", [(2, 3), (3,), (2,)])],
            (2,): [("ab,b->a", [(2, 3), (3,)]), ("a,a->a", [(2,), (2,)]), ("ba->a", [(3, 2)])],
            (3,): [("ab,a->b", [(2, 3), (2,)]), ("a,b->b", [(2,), (3,)])],
            (2, 3): [("a,b->ab", [(2,), (3,)]), ("ba->ab", [(3, 2)]), ("ac,cb->ab", [(2, 2), (2, 3)])],
            (3, 2): [("ab->ba", [(2, 3)]), ("ab,b->ab", [(3, 2), (2,)])],
            (2, 2): [("ab,bc->ac", [(2, 3), (3, 2)]), ("a,b->ab", [(2,), (2,)])],
        }.get(tuple(shape))
        if not table:
            return None
        eq, shapes = self.choice(table)
        return ("fin", "einsum", (("equation", eq),), tuple(self.real(depth - 1, s) for s in shapes))

    def k_opstack(self, depth, shape):
        if not shape:
            return None
        if self.rng.random() < 0.5:
            # ops.stack along a new dim
            pos = int(self.rng.integers(0, len(shape)))
            inner = shape[:pos] + shape[pos + 1:]
            n = shape[pos]
            dim = pos if self.rng.random() < 0.5 else pos - len(shape)
            return ("fin", "stack", (("dim", dim),), tuple(self.real(depth - 1, inner) for _ in range(n)))
        pos = int(self.rng.integers(0, len(shape)))
        n = shape[pos]
        if n < 2:
            return None
        cut = int(self.rng.integers(1, n))
        s1 = shape[:pos] + (cut,) + shape[pos + 1:]
        s2 = shape[:pos] + (n - cut,) + shape[pos + 1:]
        axis = pos if self.rng.random() < 0.5 else pos - len(shape)
        return ("fin", "cat", (("axis", axis),), (self.real(depth - 1, s1), self.real(depth - 1, s2)))

    def k_getslice(self, depth, shape):
        c = self.rng.random()
        if c < 0.4:
            size = int(self.choice([2, 3]))
            i = int(self.rng.integers(-size, size))
            return ("un", "getslice", (("index", (i,)),), self.real(depth - 1, (size,) + shape))
        if c < 0.7 and shape:
            n = shape[0]
            big = n + int(self.rng.integers(0, 2))
            start = int(self.rng.integers(0, big - n + 1))
            return ("un", "getslice", (("index", (slice(start, start + n),)),), self.real(depth - 1, (big,) + shape[1:]))
        if c < 0.85 and shape:
            size = int(self.choice([2, 3]))
            i = int(self.rng.integers(0, size))
            return ("un", "getslice", (("index", (Ellipsis, i)),), self.real(depth - 1, shape + (size,)))
        if shape and shape[0] == 1:
            return ("un", "getslice", (("index", (None,)),), self.real(depth - 1, shape[1:]))
        return None

    def k_slicesub(self, depth, shape):
        e = self.real(depth - 1, shape)
        try:
            inputs, _ = typecheck(e)
        except (IllTyped, Unsupported):
            return None
        ints = [n for n, d in inputs.items() if d[0] != "real" and d[1] == () and d[0] >= 1]
        if not ints:
            return None
        k = self.choice(ints)
        size = inputs[k][0]
        start = int(self.rng.integers(0, size))
        stop = int(self.rng.integers(start + 1, size + 1))
        step = int(self.rng.integers(1, 3))
        name = self.choice([k, self.fresh("s"), self.choice(list(self.pool))])
        return ("sub", e, ((k, ("slice", name, start, stop, step, int(size))),))

    def k_indep(self, depth, shape):
        if shape != () or self.mode in ("nonneg", "tropical"):
            return None
        bv = self.choice([n for n in ("i", "j", "k") if n in self.pool])
        dv = self.fresh("d")
        rv = self.fresh("r")
        body = ("bin", self.choice(["mul", "add", "sub"]), (), self.tensor((), [bv] + self.names(1)), ("var", dv, ("real", ())))
        if self.rng.random() < 0.5:
            body = ("bin", "add", (), body, self.real(depth - 1, ()))
        e = ("indep", body, rv, bv, dv)
        c = self.rng.random()
        if c < 0.6 or self.ground:
            return ("sub", e, ((rv, ("ten", self.data((self.pool[bv],)), (), "real")),))
        return e
