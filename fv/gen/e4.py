"""E4: sum-product expressions over the supported semirings, with operands that do or do not mention each reduced variable."""
import itertools

import numpy as np

NAMES = {"a": 1, "i": 2, "j": 3, "k": 2, "n": 4}
SEMIRINGS = [("add", "mul", "real"), ("logaddexp", "add", "real"), ("max", "add", "real"), ("min", "add", "real"),
             ("max", "mul", "nonneg"), ("min", "mul", "nonneg"), ("or_", "and_", "bool")]
GRID = np.arange(-2.0, 2.01, 0.25)


class SemiringGen:
    def __init__(self, rng, semiring, real_param=0.2, max_operands=8):
        self.rng = rng
        self.sum_op, self.prod_op, self.carrier = semiring
        self.real_param = real_param if self.carrier != "bool" else 0.0
        self.max_operands = max_operands
        self.n_leaves = 0
        self.counter = 0
        self.shared = []

    def choice(self, xs):
        return xs[int(self.rng.integers(len(xs)))]

    def leaf(self, names=None):
        if names is None and getattr(self, "leaf_pool", None) and self.rng.random() < 0.15:
            self.n_leaves += 1
            return self.choice(self.leaf_pool)   # the very same operand object again (x * y * x)
        t = self._leaf(names)
        if not hasattr(self, "leaf_pool"):
            self.leaf_pool = []
        self.leaf_pool.append(t)
        return t

    def _leaf(self, names=None):
        if names is None:
            names = [n for n in NAMES if self.rng.random() < 0.45]
            self.rng.shuffle(names)
        shape = tuple(NAMES[n] for n in names)
        self.n_leaves += 1
        if self.carrier == "bool":
            return ("ten", self.rng.integers(0, 2, size=shape).astype(np.int64), tuple(names), 2)
        data = self.rng.choice(GRID, size=shape)
        if self.carrier == "nonneg":
            data = np.abs(data)
        data = np.ascontiguousarray(data, dtype=np.float64)
        if self.prod_op == "add" and self.sum_op in ("logaddexp", "max") and data.ndim and self.rng.random() < 0.2:
            # log of zero probability: single -inf entries, or a whole slice that is -inf along the other names (impossible state)
            if self.rng.random() < 0.5:
                data[self.rng.random(data.shape) < 0.3] = -np.inf
            else:
                ax = int(self.rng.integers(data.ndim))
                idx = [slice(None)] * data.ndim
                idx[ax] = int(self.rng.integers(data.shape[ax]))
                data[tuple(idx)] = -np.inf
        t = ("ten", data, tuple(names), "real")
        if self.rng.random() < self.real_param:
            x = ("var", self.choice(["x", "y"]), ("real", ()))
            if self.carrier == "nonneg":
                x = ("un", "abs", (), x)
            op = self.prod_op if self.rng.random() < 0.7 else None
            if op:
                return ("bin", op, (), t, x)
        if self.rng.random() < 0.05 and self.carrier != "bool":
            v = float(self.rng.choice(GRID))
            return ("num", abs(v) if self.carrier == "nonneg" else v, "real")
        return t

    def expr(self, depth):
        if getattr(self, "shared", None) and self.rng.random() < 0.12:
            return self.choice(self.shared)  # the same lazy sub-expression used twice (shared binder names)
        e = self._expr(depth)
        if e[0] == "red":
            self.shared.append(e)
        return e

    def _expr(self, depth):
        if depth <= 0 or self.n_leaves >= self.max_operands or self.rng.random() < 0.15:
            return self.leaf()
        r = self.rng.random()
        if r < 0.06:
            # the same operand object twice in one flat product: x * y * x
            x = self.leaf()
            y = self.expr(depth - 1)
            return ("bin", self.prod_op, (), ("bin", self.prod_op, (), x, y), x) if self.rng.random() < 0.5 else ("bin", self.prod_op, (), x, ("bin", self.prod_op, (), y, x))
        if r < 0.4:
            k = int(self.rng.integers(2, 4))
            e = self.expr(depth - 1)
            for _ in range(k - 1):
                e = ("bin", self.prod_op, (), e, self.expr(depth - 1)) if self.rng.random() < 0.8 else ("bin", self.prod_op, (), self.expr(depth - 1), e)
            return e
        if r < 0.75:
            e = self.expr(depth - 1)
            vs = [n for n in NAMES if self.rng.random() < 0.4]
            if not vs:
                vs = [self.choice(list(NAMES))]
            return ("red", self.sum_op, e, tuple(sorted((n, (NAMES[n], ())) for n in vs)))
        if r < 0.85:
            # sum of two expressions (the additive op used as a binary op): exercises distribution
            return ("bin", self.sum_op, (), self.expr(depth - 1), self.expr(depth - 1))
        # substitution: renaming / number / index tensor
        e = self.expr(depth - 1)
        k = self.choice(list(NAMES))
        c = self.rng.random()
        size = NAMES[k]
        if c < 0.35:
            v = ("num", int(self.rng.integers(size)), size)
        elif c < 0.7:
            cands = [n for n in NAMES if NAMES[n] == size and n != k]
            self.counter += 1
            v = ("var", self.choice(cands + ["z%d" % self.counter]), (size, ()))
        else:
            other = self.choice(list(NAMES))
            v = ("ten", self.rng.integers(0, size, size=(NAMES[other],)).astype(np.int64), (other,), size)
        return ("sub", e, ((k, v),))

    def program(self, depth):
        self.n_leaves = 0
        self.shared = []
        self.leaf_pool = []
        return self.expr(depth)


def einsum_equations(max_operands, max_symbols, symbols="abcd"):
    """all einsum equations with <= max_operands operands over <= max_symbols symbols, up to symbol renaming (canonical first-use order)"""
    syms = symbols[:max_symbols]
    seen = set()
    operand_specs = []
    for r in range(0, 3):
        for c in itertools.permutations(syms, r):
            operand_specs.append("".join(c))
    for n in range(1, max_operands + 1):
        for ins in itertools.product(operand_specs, repeat=n):
            used = []
            for s in "".join(ins):
                if s not in used:
                    used.append(s)
            if used != list(syms[: len(used)]):
                continue  # canonical naming by first use
            if len(used) == 0:
                continue
            for r in range(0, min(len(used), 2) + 1):
                for out in itertools.permutations(used, r):
                    eq = ",".join(ins) + "->" + "".join(out)
                    if eq not in seen:
                        seen.add(eq)
                        yield eq
