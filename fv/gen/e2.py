"""E2: substitution workloads: a catalogue of subjects f (IR) and systematic value classes per input."""
import itertools

import numpy as np

SIZES = {"i": 2, "j": 3, "k": 2, "l": 3, "m": 2}
GRID = np.arange(-2.0, 2.01, 0.25)


def _data(rng, shape):
    return np.ascontiguousarray(rng.choice(GRID, size=shape))


def ten(rng, names, eshape=(), sizes=None):
    sizes = sizes or SIZES
    return ("ten", _data(rng, tuple(sizes[n] for n in names) + tuple(eshape)), tuple(names), "real")


def iten(rng, size, names, sizes=None):
    sizes = sizes or SIZES
    return ("ten", rng.integers(0, size, size=tuple(sizes[n] for n in names)).astype(np.int64), tuple(names), int(size))


X = ("var", "x", ("real", ()))


def subjects(rng):
    """(label, IR, kind) ; kind 'eager' subjects are ground tensors, 'lazy' ones keep a lazy remainder (free real x)"""
    out = []
    for names in [("i",), ("j",), ("i", "j"), ("j", "i"), ("i", "k"), ("i", "j", "k"), ("k", "j", "i")]:
        for es in [(), (2,)]:
            out.append(("Tensor[%s|%s]" % (",".join(names), es), ten(rng, names, es)))
    out.append(("lazy-Binary", ("bin", "add", (), ("bin", "mul", (), ten(rng, "ij"), X), ten(rng, "jk"))))
    out.append(("lazy-Unary", ("un", "exp", (), ("bin", "add", (), ten(rng, "ij"), X))))
    out.append(("lazy-Reduce", ("red", "add", ("bin", "mul", (), ten(rng, "ijk"), X), (("k", (2, ())),))))
    out.append(("lazy-Reduce-logaddexp", ("red", "logaddexp", ("bin", "add", (), ten(rng, "ijl"), X), (("l", (3, ())),))))
    out.append(("Stack", ("stack", "k", (("bin", "mul", (), ten(rng, "ij"), X), ten(rng, "j")))))
    out.append(("Stack3", ("stack", "l", (ten(rng, "ij"), ("bin", "add", (), ten(rng, "i"), X), ten(rng, "j")))))
    out.append(("Cat", ("cat", "j", (("bin", "mul", (), ten(rng, "ij", sizes=dict(SIZES, j=1)), X), ten(rng, "j", sizes=dict(SIZES, j=2))), "j")))
    out.append(("Cat-partname", ("cat", "l", (("bin", "mul", (), ten(rng, "im", sizes=dict(SIZES, m=1)), X), ten(rng, "m", sizes=dict(SIZES, m=2))), "m")))
    out.append(("Slice", ("slice", "j", 0, 3, 1, 3)))
    out.append(("Slice-strided", ("slice", "i", 1, 5, 2, 6)))
    out.append(("Lambda", ("lam", "k", 2, ("bin", "mul", (), ten(rng, "ijk"), X))))
    out.append(("Lambda-eager", ("lam", "k", 2, ten(rng, "ijk"))))
    out.append(("Contraction", ("contr", "add", "mul", (("k", (2, ())),), (ten(rng, "ik"), ("bin", "add", (), ten(rng, "kj"), X)))))
    out.append(("Independent", ("indep", ("bin", "add", (), ("bin", "mul", (), ten(rng, "ki"), ("var", "d", ("real", ()))), ten(rng, "j")), "r", "k", "d")))
    for rank in (1, 3):
        w = np.round(rng.uniform(-1, 1, size=(2, 3, rank)), 2)
        P = np.round(rng.uniform(-1, 1, size=(2, 3, 3, rank)), 2)
        out.append(("Gaussian-rank%d" % rank, ("gauss", w, P, (("i", (2, ())), ("y", ("real", (2,))), ("j", (3, ())), ("x", ("real", ()))))))
    w = np.round(rng.uniform(-1, 1, size=(2, 4)), 2)
    P = np.round(rng.uniform(-1, 1, size=(2, 4, 4)), 2)
    out.append(("Gaussian-3-real-inputs", ("gauss", w, P, (("i", (2, ())), ("x", ("real", ())), ("y", ("real", (2,))), ("z", ("real", ()))))))
    w = np.round(rng.uniform(-1, 1, size=(3,)), 2)
    P = np.round(rng.uniform(-1, 1, size=(3, 3)), 2)
    out.append(("Gaussian-3-scalar-inputs", ("gauss", w, P, (("z", ("real", ())), ("x", ("real", ())), ("y", ("real", ()))))))
    out.append(("Delta", ("delta", (("v", ten(rng, "ij"), ten(rng, "j")),))))
    out.append(("getitem-lazy", ("bin", "getitem", (("offset", 0),), ("bin", "add", (), ten(rng, "i", (3,)), X), ("var", "j", (3, ())))))
    return out


def value_classes(rng, name, dom, f_inputs, chain=False):
    """list of (class label, value IR) for one input of f"""
    out = []
    if dom[0] == "real":
        out.append(("real-tensor", ("ten", _data(rng, dom[1]), (), "real")))
        out.append(("real-tensor-batched", ("ten", _data(rng, (2,) + dom[1]), ("i",), "real")))
        out.append(("real-fresh-var", ("var", "u", dom)))
        if dom[1] == ():
            out.append(("real-affine", ("bin", "add", (), ("bin", "mul", (), ("var", "u", dom), ("num", 0.5, "real")), ("num", 0.25, "real"))))
            out.append(("real-self-affine", ("bin", "add", (), ("var", name, dom), ("num", 1.0, "real"))))
            # values that mention ANOTHER real input of the subject (which may itself be substituted in the same map)
            for other, od in f_inputs.items():
                if other != name and od == dom:
                    out.append(("real-other-input-var", ("var", other, dom)))
                    out.append(("real-other-input-affine", ("bin", "add", (), ("bin", "mul", (), ("var", other, dom), ("num", 2.0, "real")), ("num", -0.5, "real"))))
                    out.append(("real-mixed-affine", ("bin", "add", (), ("bin", "mul", (), ("var", other, dom), ("num", 1.5, "real")), ("var", name, dom))))
        else:
            out.append(("real-affine", ("bin", "add", (), ("var", "u", dom), ("ten", _data(rng, dom[1]), (), "real"))))
        return out
    if dom[1] != ():
        return out
    size = dom[0]
    out.append(("num", ("num", int(rng.integers(size)), size)))
    out.append(("num-last", ("num", size - 1, size)))
    out.append(("fresh-var", ("var", "z", (size, ()))))
    for other, osize in SIZES.items():
        if other != name and osize == size:
            out.append(("var:%s" % ("input" if other in f_inputs else "other"), ("var", other, (size, ()))))
    out.append(("self-var", ("var", name, (size, ()))))
    for start in range(size):
        for stop in range(start + 1, size + 1):
            for step in (1, 2):
                if step > 1 and stop - start < 2 and start > 0:
                    continue
                for nm in ("s", name) + tuple(n for n in f_inputs if n != name)[:1]:
                    out.append(("slice:%s" % ("fresh" if nm == "s" else "self" if nm == name else "input"), ("slice", nm, start, stop, step, size)))
    out.append(("index0", iten(rng, size, ())))
    out.append(("index-fresh", ("ten", rng.integers(0, size, size=(2,)).astype(np.int64), ("q",), size)))
    for other in f_inputs:
        if f_inputs[other][0] != "real" and f_inputs[other][1] == ():
            osz = f_inputs[other][0]
            out.append(("index-over-%s" % ("self" if other == name else "input"),
                        ("ten", rng.integers(0, size, size=(osz,)).astype(np.int64), (other,), size)))
    out.append(("index-2d", ("ten", rng.integers(0, size, size=(2, SIZES["j"])).astype(np.int64), ("q", "j"), size)))
    out.append(("lazy-stack", ("stack", "q", (("var", "z", (size, ())), ("num", 0, size)))))
    out.append(("lazy-index-of-var", ("sub", ("ten", rng.integers(0, size, size=(3,)).astype(np.int64), ("p",), size), (("p", ("var", "w", (3, ()))),))))
    return out


def thin(classes, rng, per_label=2):
    """keep at most per_label values of each class label (slices are numerous)"""
    by = {}
    for lab, v in classes:
        by.setdefault(lab, []).append(v)
    out = []
    for lab, vs in by.items():
        if len(vs) > per_label:
            idx = rng.choice(len(vs), size=per_label, replace=False)
            vs = [vs[i] for i in sorted(idx)]
        out.extend((lab, v) for v in vs)
    return out
