"""C17 Interpretation contexts nest and unwind like a stack.

Oracle: explicit stack model (list of expected top objects / flattened sub-interpretation tuples) compared with
funsor.interpreter.get_interpretation() and with the class of freshly built probe terms after every step of every
well-nested enter/exit sequence, with an exception injected at every position and caught at every outer level.
"""
import itertools

import numpy as np

from ..common import shard_rng

ID = "C17"
LEVEL = "fault_enumeration"
RULE = ("all chains of nested interpretation contexts over 9 kinds {eager, lazy, reflect, normalize, sequential, moment_matching, "
        "memoize(), user-defined partial DispatchedInterpretation, AdjointTape()} up to a depth (exhaustive), x 3 entry styles "
        "(with-blocks, decorators, alternating) x every (raise level, catch level) pair incl. no exception, followed by a sibling "
        "block after the handler; plus the overflow assertion inside __enter__. A case is (chain, style, raise level, catch level); "
        "non-trivial when depth>=2; distinct by that tuple")
ASSUMPTIONS = ["probe classes expected per interpretation are a fixed table derived from the documented meaning of each interpretation"]
EXHAUSTIVE = {"quick": True, "thorough": True}
MIN_NONTRIVIAL = {"quick": 10000, "thorough": 100000}
REQUIRED_COUNTERS = ["steps-checked", "exceptional-exits", "probe-terms-built", "failing-substitutions", "shared-instance-cases"]

KINDS = ["eager", "lazy", "reflect", "normalize", "sequential", "moment_matching", "memoize", "user", "user2", "tape"]


class Injected(Exception):
    pass


def plan(tier, seed):
    max_depth = 3 if tier == "quick" else 4
    sample_depth = 4 if tier == "quick" else 5
    shards = []
    # exhaustive part: split by first kind and second kind
    for k1 in KINDS:
        shards.append({"name": "exh-%s" % k1, "kind": "exhaustive", "first": k1, "max_depth": max_depth, "timeout": 3000})
    n_s = 6 if tier == "quick" else 48
    for i in range(n_s):
        shards.append({"name": "sample-%d" % i, "kind": "sample", "depth": sample_depth, "n": 120 if tier == "quick" else 1500, "timeout": 3000})
    shards.append({"name": "overflow", "kind": "overflow", "timeout": 600})
    return shards


class Harness:
    def __init__(self, res):
        import funsor
        import funsor.interpreter as interpreter
        from funsor import ops
        from funsor.adjoint import AdjointTape
        from funsor.interpretations import (DispatchedInterpretation, Memoize, eager, lazy, memoize, moment_matching,
                                            normalize, reflect, sequential)
        from funsor.tensor import Tensor
        from funsor.terms import Binary, Funsor, Number, Variable

        from ..monitors import install_stack_monitor

        self.res = res
        self.interpreter = interpreter
        self.stack = install_stack_monitor()
        self.total = {"eager": eager, "lazy": lazy, "reflect": reflect, "normalize": normalize, "sequential": sequential,
                      "moment_matching": moment_matching}
        self.Memoize = Memoize
        self.memoize = memoize
        self.AdjointTape = AdjointTape
        user = DispatchedInterpretation("user")

        @user.register(Binary, ops.XorOp, Funsor, Funsor)
        def user_xor(op, lhs, rhs):
            return Number(42.0)

        self.user = user
        user2 = DispatchedInterpretation("user2")

        @user2.register(Binary, ops.XorOp, Funsor, Funsor)
        def user2_xor(op, lhs, rhs):
            return Number(43.0)

        self.user2 = user2
        self.ops = ops
        from collections import OrderedDict

        from funsor.domains import Bint

        self.t1 = Tensor(np.array([1.0, 2.0]), OrderedDict(i=Bint[2]))
        self.t2 = Tensor(np.array([3.0, 5.0]), OrderedDict(i=Bint[2]))
        from funsor.domains import Real

        self.vr = Variable("r1", Real)
        self.vr2 = Variable("r2", Real)
        self.idx = Tensor(np.array([0, 1, 1]), OrderedDict(q=Bint[3]), 2)
        self.va = Variable("a", Bint[2])
        self.vb = Variable("b", Bint[2])
        self.classes = {}
        import funsor.cnf
        import funsor.terms as T

        self.cls = {"Tensor": Tensor, "Reduce": T.Reduce, "Binary": T.Binary, "Contraction": funsor.cnf.Contraction, "Number": T.Number}

    def failing_subs(self):
        """advanced indexing into a lazy Stack is not implemented: Stack.eager_subs raises inside substitute()"""
        from funsor.terms import Stack

        st = Stack("s", (self.vr, self.vr2))
        return st(s=self.idx)

    # -- model helpers ---------------------------------------------------
    def top(self):
        return self.interpreter.get_interpretation()

    def make(self, kind):
        if kind in self.total:
            return self.total[kind]
        if kind == "memoize":
            return self.memoize()
        if kind == "user":
            return self.user
        if kind == "user2":
            return self.user2
        if kind == "tape":
            return self.AdjointTape()
        raise ValueError(kind)

    def check_entered(self, kind, cm, prev_top, case):
        top = self.top()
        self.res.count("steps-checked")
        if kind in self.total:
            if top is not self.total[kind]:
                return "after entering %s the active interpretation is %r" % (kind, top)
        elif kind == "memoize":
            if not isinstance(top, self.Memoize) or top.base_interpretation is not prev_top:
                return "after entering memoize() the active interpretation is %r (base %r), expected Memoize over %r" % (
                    top, getattr(top, "base_interpretation", None), prev_top)
        else:
            obj = self.user if kind == "user" else self.user2 if kind == "user2" else cm
            want = (obj,) + tuple(prev_top.subinterpretations)
            got = tuple(getattr(top, "subinterpretations", ()))
            if len(got) != len(want) or any(g is not w for g, w in zip(got, want)):
                return "after entering partial %s the active chain is %r, expected %r" % (kind, got, want)
        return None

    def effective(self, chain_kinds):
        """(user_active, base kind) predicted by the model for a chain of entered kinds"""
        base = "eager"
        user = 0
        for k in chain_kinds:
            if k in self.total:
                base = k
                user = 0
            elif k == "user":
                user = 42
            elif k == "user2":
                user = 43  # the innermost partial layer wins
        return user, base

    def probe(self, entered, case):
        """terms built now must be interpreted by the innermost context, partial ones falling through"""
        user, base = self.effective(entered)
        evaluating = base in ("eager", "sequential", "moment_matching")
        want1 = "Tensor" if evaluating else "Contraction" if base == "normalize" else "Reduce"
        want2 = "Tensor" if evaluating else "Contraction" if base == "normalize" else "Binary"
        want3 = "Number" if user else ("Binary" if base in ("lazy", "reflect") else "Contraction")
        p1 = self.t1.reduce(self.ops.add, "i")
        p2 = self.t1 + self.t2
        p3 = self.ops.xor(self.va, self.vb)
        self.res.count("probe-terms-built", 3)
        for name, p, want in (("Tensor.reduce", p1, want1), ("Tensor+Tensor", p2, want2), ("xor(Variable,Variable)", p3, want3)):
            if not isinstance(p, self.cls[want]):
                return "probe %s built inside %s was interpreted as %s, expected %s (innermost total=%s, user layer=%s)" % (
                    name, list(entered), type(p).__name__, want, base, user)
        if evaluating and (float(p1.data) != 3.0 or p2.data.tolist() != [4.0, 7.0]):
            return "probe values wrong under %s" % (list(entered),)
        if user and p3.data != float(user):
            return "probe xor(Variable,Variable) inside %s was rewritten to %s, the innermost user layer should give %s" % (list(entered), p3.data, user)
        # a substitution that raises must not disturb the stack
        before = (self.top(), len(self.interpreter._STACK))
        try:
            self.failing_subs()
        except Exception:
            self.res.count("failing-substitutions")
        if (self.top(), len(self.interpreter._STACK)) != before and self.top() is not before[0]:
            return "a substitution that raised inside %s left the interpretation stack changed: top %r depth %d (was %r depth %d)" % (
                list(entered), self.top(), len(self.interpreter._STACK), before[0], before[1])
        return None

    # -- executor ----------------------------------------------------------
    def run_case(self, chain, style, raise_at, catch_at, sibling):
        """returns None or a violation message. raise_at: level index (1..d) or 0 = none; catch_at: level (0..raise_at-1)"""
        errors = []
        depth0 = len(self.interpreter._STACK)
        base_top = self.top()

        def fail(msg):
            errors.append(msg)

        def enter_block(kind, level, entered, body):
            """runs body() inside a context of `kind` entered at `level` (1-based), as with-block or decorator"""
            prev_top = self.top()
            prev_depth = len(self.interpreter._STACK)
            cm = self.make(kind)
            use_decorator = style == "decorator" or (style == "alternate" and level % 2 == 0)

            def inner():
                m = self.check_entered(kind, cm, prev_top, None)
                if m:
                    fail(m)
                m = self.probe(entered + [kind], None)
                if m:
                    fail(m)
                body()
                # after inner blocks exited normally this level is active again
                if self.top() is not active_here[0]:
                    fail("after leaving an inner block normally, level %d (%s) is not active again: %r" % (level, kind, self.top()))
                m = self.probe(entered + [kind], None)
                if m:
                    fail("(after inner exit) " + m)
                if raise_at == level:
                    raise Injected()

            active_here = [None]

            def inner_wrapped():
                active_here[0] = self.top()
                inner()

            try:
                if use_decorator:
                    cm(inner_wrapped)()
                else:
                    with cm:
                        inner_wrapped()
            finally:
                self.res.count("steps-checked")
                if self.top() is not prev_top or len(self.interpreter._STACK) != prev_depth:
                    fail("after leaving %s (level %d) the active interpretation is %r (depth %d), expected %r (depth %d)" % (
                        kind, level, self.top(), len(self.interpreter._STACK), prev_top, prev_depth))

        def nest(level, entered):
            if level > len(chain):
                return
            kind = chain[level - 1]

            def body():
                nest(level + 1, entered + [kind])

            if catch_at == level - 1 and raise_at:
                # handler sits just outside this level
                try:
                    enter_block(kind, level, entered, body)
                except Injected:
                    self.res.count("exceptional-exits")
                    m = self.probe(entered, None)
                    if m:
                        fail("(in handler) " + m)
                    if sibling is not None:
                        enter_block(sibling, level, entered, lambda: None) if not (raise_at == level) else _sib(level, entered)
            else:
                enter_block(kind, level, entered, body)

        def _sib(level, entered):
            # sibling block after the handler; its own raise is disabled by using a level number that never matches
            prev = self.top()
            cm = self.make(sibling)
            with cm:
                m = self.check_entered(sibling, cm, prev, None)
                if m:
                    fail("(sibling) " + m)
                m = self.probe(entered + [sibling], None)
                if m:
                    fail("(sibling) " + m)
            if self.top() is not prev:
                fail("(sibling) after leaving %s the active interpretation is %r" % (sibling, self.top()))

        try:
            nest(1, [])
        except Injected:
            fail("injected exception escaped its handler (harness)")
        except AssertionError as e:
            if "suspicious interpretation overflow" in str(e):
                self.res.count("overflow-assertions")
            else:
                fail("AssertionError: %s" % e)
        except Exception as e:
            fail("unexpected %s: %s" % (type(e).__name__, e))
        if self.top() is not base_top or len(self.interpreter._STACK) != depth0:
            fail("after the whole sequence the active interpretation is %r at depth %d (expected %r at depth %d)" % (
                self.top(), len(self.interpreter._STACK), base_top, depth0))
        from ..monitors import repair_stack, stack_quiescent_report

        rep = stack_quiescent_report()
        if rep:
            fail(rep)
            repair_stack()
        return errors


def configs(depth):
    yield (0, 0)
    for e in range(1, depth + 1):
        for c in range(0, e):
            yield (e, c)


def run_shard(shard, res):
    h = Harness(res)
    rng = shard_rng(shard["seed"], ID, shard["name"])
    if shard["kind"] == "overflow":
        # entering too many partial layers trips the assertion inside __enter__ *before* the push
        for base in ("eager", "lazy", "normalize", "sequential"):
            for n in range(5, 10):
                chain = [base] + ["user", "tape", "user2"] * n
                chain = chain[: 1 + n]
                errs = h.run_case(chain, "with", 0, 0, None)
                res.case(key=str(("overflow", base, n)), nontrivial=True, sample={"chain": chain})
                for m in errs:
                    res.violation("stack-after-overflow", "%s | chain=%s" % (m, chain), case=chain)
        return
    if shard["kind"] == "exhaustive":
        chains = []
        for d in range(1, shard["max_depth"] + 1):
            for rest in itertools.product(KINDS, repeat=d - 1):
                chains.append((shard["first"],) + rest)
    else:
        chains = [tuple(str(k) for k in rng.choice(KINDS, size=shard["depth"])) for _ in range(shard["n"])]
    sib_i = 0
    for chain in chains:
        for style in ("with", "decorator", "alternate"):
            for raise_at, catch_at in configs(len(chain)):
                sibling = KINDS[sib_i % len(KINDS)] if raise_at else None
                sib_i += 1
                errs = h.run_case(list(chain), style, raise_at, catch_at, sibling)
                key = str((chain, style, raise_at, catch_at, sibling))
                res.case(key=key, nontrivial=len(chain) >= 2,
                         sample={"chain": list(chain), "style": style, "raise_at_level": raise_at, "handler_outside_level": catch_at + 1 if raise_at else None, "sibling": sibling})
                for m in errs:
                    kind = "exception-exit" if raise_at else "normal-exit"
                    res.violation("stack:%s" % kind, "%s | chain=%s style=%s raise_at=%s catch_at=%s" % (m, list(chain), style, raise_at, catch_at),
                                  case={"chain": list(chain), "style": style, "raise_at": raise_at, "catch_at": catch_at, "sibling": sibling})
    # one context-manager INSTANCE entered twice in sequence under different enclosing interpretations (a tape kept by the caller, a user
    # interpretation object): the second entry must see the interpretation that encloses it now, not the one of the first entry
    if shard["kind"] != "exhaustive" or shard.get("first") == KINDS[0]:
        for k1, k2 in itertools.product(("eager", "lazy", "reflect", "normalize"), repeat=2):
            for obj_kind in ("tape", "user"):
                for first_exit in ("normal", "exception"):
                    obj = h.AdjointTape() if obj_kind == "tape" else h.user
                    msgs = []
                    depth0 = len(h.interpreter._STACK)
                    top0 = h.top()
                    for k, how in ((k1, first_exit), (k2, "normal")):
                        try:
                            with h.total[k]:
                                with obj:
                                    m = h.probe([k, obj_kind], None)
                                    if m:
                                        msgs.append(m)
                                    if how == "exception":
                                        raise KeyError("injected")
                        except KeyError:
                            res.count("exceptional-exits")
                        if h.top() is not top0 or len(h.interpreter._STACK) != depth0:
                            msgs.append("after leaving %s/%s the stack is not restored" % (k, obj_kind))
                    res.case(key=str(("shared-instance", k1, k2, obj_kind, first_exit)), nontrivial=True,
                             sample={"shared_instance": obj_kind, "first_under": k1, "second_under": k2, "first_exit": first_exit})
                    res.count("shared-instance-cases")
                    for m in msgs:
                        res.violation("stack:shared-instance", "%s | the same %s instance entered under %s (left by %s exit) and then under %s" % (m, obj_kind, k1, first_exit, k2),
                                      case={"chain": [k1, obj_kind], "style": "with", "raise_at": 0, "catch_at": 0, "sibling": None})
    res.count("stack-pushes-logged", h.stack.pushes)
    res.count("stack-pops-logged", h.stack.pops)
    if h.stack.pushes != h.stack.pops:
        res.violation("stack:unbalanced-log", "push/pop log unbalanced at end of shard: %d pushes, %d pops" % (h.stack.pushes, h.stack.pops))


def replay(rep, res):
    from ..common import dec

    c = dec(rep["violation"]["case"])
    h = Harness(res)
    if isinstance(c, dict):
        errs = h.run_case(list(c["chain"]), c["style"], c["raise_at"], c["catch_at"], c.get("sibling"))
    else:
        errs = h.run_case(list(c), "with", 0, 0, None)
    for m in errs:
        res.violation("stack:replay", m, case=c)
