"""C01 Eager evaluation returns the mathematical value of the expression.

Oracle: fv.refsem.ref_eval at every point of the finite integer input space (real inputs at sample points).
Workload: E1 typed random programs in several carrier modes + an enumerated depth-1 catalogue.
"""
import itertools

import numpy as np

from ..common import digest, shard_rng, short
from ..gen.e1 import POOL, Gen
from ..ir import IllTyped, Unsupported, kinds_in, show, size_of, typecheck
from ..monitors import Riders
from ..oracle import compare, is_ground

ID = "C01"
LEVEL = "exploration"
RULE = ("typed random IR programs (E1 generator: tensors, numbers, real variables, unary/binary ops, reductions over present and "
        "absent inputs, substitution of numbers/variables/index tensors/slices/expressions, getitem, Lambda, Stack, Cat, "
        "Independent, einsum, output reductions, reshape, getslice, ops.stack/cat) plus an enumerated depth-1 catalogue; built under "
        "the default interpretation and compared with the reference evaluator at every point of the integer input space (<=256 points) "
        "and 2 sample points per real input. Non-trivial: >=2 non-leaf constructors, >=2 points compared; distinct by canonical IR hash")
ASSUMPTIONS = ["reference evaluator fv/refsem.py and typing rules fv/ir.py are the trusted base",
               "reals compared with rtol 1e-6; points whose reference value is NaN are undefined and skipped"]
MIN_NONTRIVIAL = {"quick": 3000, "thorough": 30000}
REQUIRED_COUNTERS = ["verdict:ok", "core:completed"]

CORE_RED = {"add", "mul", "max", "min", "logaddexp"}
CORE_UN = {"neg", "abs", "exp", "sigmoid", "tanh", "log1p", "sqrt", "reciprocal", "sum", "prod", "amax", "amin", "logsumexp", "mean", "reshape"}
CORE_BIN = {"add", "sub", "mul", "max", "min", "logaddexp", "truediv", "getitem"}


def tensor_valued(P):
    k = P[0]
    if k == "ten":
        return True
    if k in ("num", "var", "slice"):
        return False
    if k == "un":
        return tensor_valued(P[3])
    if k == "bin":
        return tensor_valued(P[3]) or tensor_valued(P[4])
    if k == "red":
        return tensor_valued(P[2])
    if k == "sub":
        return tensor_valued(P[1])
    if k == "fin":
        return any(tensor_valued(e) for e in P[3])
    return k in ("stack", "cat", "lam")


def in_core(P, names_used=None):
    """conservative membership test for the documented core fragment (completion clause)"""
    k = P[0]
    if k == "ten":
        return True
    if k == "num":
        return True
    if k == "un":
        if not tensor_valued(P[3]):
            return False  # a bare python number is not a tensor expression
        return P[1] in CORE_UN and in_core(P[3])
    if k == "bin":
        if P[1] not in CORE_BIN:
            return False
        if P[1] == "getitem":
            return in_core(P[3]) and P[4][0] in ("num", "ten")
        return in_core(P[3]) and in_core(P[4])
    if k == "red":
        if P[1] not in CORE_RED or not in_core(P[2]):
            return False
        try:
            inp, _ = typecheck(P[2])
        except Exception:
            return False
        return all(n in inp for n, d in P[3])
    if k == "sub":
        if not in_core(P[1]):
            return False
        try:
            inp, _ = typecheck(P[1])
        except Exception:
            return False
        all_names = set(inp) | {n for n, v in P[2]}
        new_names = []
        for n, v in P[2]:
            if v[0] == "num":
                continue
            if v[0] == "var":
                if v[1] in all_names or v[1] in new_names:
                    return False
                new_names.append(v[1])
                continue
            if v[0] == "ten":
                # index tensor over names not otherwise involved
                if set(v[2]) & (all_names | set(new_names)):
                    return False
                continue
            if v[0] == "slice":
                if v[1] in all_names or v[1] in new_names:
                    return False
                new_names.append(v[1])
                continue
            return False
        return True
    if k == "stack":
        return all(p[0] == "ten" for p in P[2])
    if k == "cat":
        return P[1] == P[3] and all(p[0] == "ten" for p in P[2])
    if k == "lam":
        return P[3][0] == "ten"
    if k == "fin":
        return P[1] == "einsum" and all(in_core(e) for e in P[3])
    return False


def plan(tier, seed):
    shards = []
    if tier == "quick":
        per, reps = 1500, 1
    else:
        per, reps = 5000, 3
    modes = [("free", 0.0, 3), ("free", 0.0, 2), ("arith", 0.2, 3), ("arith", 0.25, 2), ("tropical", 0.25, 3), ("nonneg", 0.25, 3),
             ("free", 0.0, 4 if tier == "thorough" else 3), ("arith", 0.0, 3)]
    for r in range(reps):
        for i, (mode, rv, depth) in enumerate(modes):
            for half in range(2):
                shards.append({"name": "rand-%s-%d-%d-%d" % (mode, i, r, half), "kind": "random", "mode": mode, "real_vars": rv, "depth": depth, "n": per, "timeout": 1500})
    shards.append({"name": "catalogue", "kind": "catalogue", "timeout": 1500})
    return shards


def catalogue(rng):
    """depth-1 catalogue: every constructor x input subsets x shapes x parameters (enumerated, not sampled)"""
    g = Gen(rng, real_vars=0.0)
    name_sets = [(), ("i",), ("j",), ("i", "j"), ("j", "i"), ("i", "j", "k"), ("a",), ("a", "n")]
    shapes = [(), (2,), (3,), (2, 3)]
    # reductions: every subset of present names and one absent name, every op
    for names in name_sets:
        for shape in [(), (2,)]:
            t = g.tensor(shape, list(names))
            cands = list(names) + [n for n in ("k", "l") if n not in names][:1]
            for r in range(1, len(cands) + 1):
                for vs in itertools.combinations(cands, r):
                    for op in ("add", "mul", "max", "min", "logaddexp"):
                        yield ("red", op, t, tuple(sorted((n, (POOL[n], ())) for n in vs)))
    # binary: every overlap pattern of inputs, broadcasting of outputs
    for ln in name_sets[:6]:
        for rn in name_sets[:6]:
            for ls, rs in [((), ()), ((2,), ()), ((), (3,)), ((2, 3), (3,)), ((2, 1), (1, 3)) if False else ((2,), (2,))]:
                for op in ("add", "sub", "mul", "max", "logaddexp"):
                    yield ("bin", op, (), g.tensor(ls, list(ln)), g.tensor(rs, list(rn)))
    # sums and products of two comparison results (bounded-integer valued; numpy represents them as booleans)
    for ln, rn in [((), ()), (("i",), ("i",)), (("i",), ("j",))]:
        for c1, c2 in [("lt", "gt"), ("le", "le"), ("eq", "ne")]:
            for op in ("add", "mul", "max"):
                yield ("bin", op, (), ("bin", c1, (), g.tensor((), list(ln)), g.tensor((), list(ln))), ("bin", c2, (), g.tensor((), list(rn)), g.tensor((), list(rn))))
    # output reductions: all axis/keepdims
    for shape in [(2,), (3,), (2, 3), (2, 2, 3)]:
        nd = len(shape)
        axes = [None] + list(range(-nd, nd)) + ([(0, 1), (-1, 0)] if nd >= 2 else [])
        for names in [(), ("i",), ("j", "i")]:
            t = g.tensor(shape, list(names))
            for axis in axes:
                for keepdims in (False, True):
                    for op in ("sum", "prod", "amax", "amin", "logsumexp", "mean", "std", "var"):
                        yield ("un", op, (("axis", axis), ("keepdims", keepdims)), t)
    # scalar output reductions with keepdims
    for op in ("sum", "amax", "logsumexp", "mean"):
        for keepdims in (False, True):
            yield ("un", op, (("axis", None), ("keepdims", keepdims)), g.tensor((), ["i"]))
    # substitution of slices: all (start, stop, step) for each size
    for names in [("i",), ("j",), ("n",), ("j", "i"), ("n", "a")]:
        t = g.tensor((), list(names))
        k = names[0]
        size = POOL[k]
        for start in range(size):
            for stop in range(start + 1, size + 1):
                for step in (1, 2, 3):
                    for nm in ("s", k):
                        yield ("sub", t, ((k, ("slice", nm, start, stop, step, size)),))
        for v in range(size):
            yield ("sub", t, ((k, ("num", v, size)),))
        for other in [n for n in POOL if POOL[n] == size and n != k] + ["zz"]:
            yield ("sub", t, ((k, ("var", other, (size, ()))),))
        for idx_names in [(), ("k",), (k,), tuple(n for n in names if n != k)[:1]]:
            yield ("sub", t, ((k, g.int_tensor(size, list(idx_names))),))
    # getitem: all offsets, index kinds
    for shape in [(2,), (3, 2), (2, 3, 2)]:
        for off in range(len(shape)):
            size = shape[off]
            for names in [(), ("i",), ("j", "k")]:
                t = g.tensor(shape, list(names))
                for idx in [("num", size - 1, size), ("num", 0, size), ("var", "v", (size, ())), g.int_tensor(size, []), g.int_tensor(size, ["i"]), g.int_tensor(size, ["l"])]:
                    yield ("bin", "getitem", (("offset", off),), t, idx)
    # Lambda / Stack / Cat
    for names in [("i",), ("i", "j"), ("j",), ()]:
        for shape in [(), (2,)]:
            for v in ("i", "j", "k"):
                yield ("lam", v, POOL[v], g.tensor(shape, list(names)))
            for n in (1, 2, 3):
                for sname in ("s", "k"):
                    if sname not in names:
                        yield ("stack", sname, tuple(g.tensor(shape, list(names)) for _ in range(n)))
    for sizes in [(1, 2), (2, 1), (1, 1, 1), (3,), (2, 2)]:
        for rest in [(), ("i",)]:
            parts = tuple(("ten", g.data((s,) + tuple(POOL[r] for r in rest)), ("c",) + rest, "real") for s in sizes)
            yield ("cat", "c", parts, "c")
            yield ("cat", "d", parts, "c")
            tot = sum(sizes)
            for start in range(tot):
                for stop in range(start + 1, tot + 1):
                    for step in (1, 2):
                        yield ("sub", ("cat", "c", parts, "c"), (("c", ("slice", "s", start, stop, step, tot)),))
            for v in range(tot):
                yield ("sub", ("cat", "c", parts, "c"), (("c", ("num", v, tot)),))
    # reshape / einsum / ops.stack / ops.cat / getslice
    for src, tgt in [((2, 3), (3, 2)), ((2, 3), (6,)), ((6,), (2, 3)), ((2,), (2, 1)), ((2, 1), (2,)), ((), (1,)), ((1,), ())]:
        for names in [(), ("i",), ("j", "i")]:
            yield ("un", "reshape", (("shape", tgt),), g.tensor(src, list(names)))
    for eq, shs in [("ab,bc->ac", [(2, 3), (3, 2)]), ("ab->ba", [(2, 3)]), ("a,a->", [(3,), (3,)]), ("ab,b->a", [(2, 3), (3,)]), ("a,b->ab", [(2,), (3,)]), ("ab->", [(2, 2)]), ("aa->a", [(2, 2)])]:
        for names in [[(), ()], [("i",), ("j",)], [("i", "j"), ("j", "i")], [("i",), ("i",)]]:
            yield ("fin", "einsum", (("equation", eq),), tuple(g.tensor(s, list(n)) for s, n in zip(shs, names + names)))
    for shape in [(), (2,), (2, 3)]:
        for dim in range(-len(shape) - 1, len(shape) + 1):
            for names in [[(), ("i",)], [("i",), ("j",)]]:
                yield ("fin", "stack", (("dim", dim),), tuple(g.tensor(shape, list(n)) for n in names))
    for s1, s2, axis in [((2,), (3,), 0), ((2,), (3,), -1), ((2, 3), (1, 3), 0), ((2, 3), (2, 1), 1), ((2, 3), (2, 1), -1), ((2, 3), (1, 3), -2)]:
        for names in [[(), ("i",)], [("i",), ("j",)]]:
            yield ("fin", "cat", (("axis", axis),), (g.tensor(s1, list(names[0])), g.tensor(s2, list(names[1]))))
    for shape in [(3,), (2, 3), (2, 3, 2)]:
        idxs = [(0,), (-1,), (slice(1, None),), (slice(None, 2),), (slice(None, None, 2),), (Ellipsis, 0), (Ellipsis, slice(0, 1)), (None,), (Ellipsis, None)]
        if len(shape) >= 2:
            idxs += [(0, 1), (slice(None), 0), (1, Ellipsis), (slice(0, 1), slice(1, 3)), (Ellipsis, 1, slice(None))]
        for idx in idxs:
            for names in [(), ("i",)]:
                yield ("un", "getslice", (("index", idx),), g.tensor(shape, list(names)))


def run_shard(shard, res):
    rng = shard_rng(shard["seed"], ID, shard["name"])
    riders = Riders(res)
    if shard["kind"] == "catalogue":
        gen = catalogue(rng)
    else:
        g = Gen(rng, real_vars=shard["real_vars"], mode=shard["mode"])

        def _gen():
            for _ in range(shard["n"]):
                yield g.real(shard["depth"], SHAPE_CHOICES[int(rng.integers(len(SHAPE_CHOICES)))])

        gen = _gen()
    for P in gen:
        run_case(P, res, riders, rng, shard)


SHAPE_CHOICES = [(), (), (), (2,), (3,), (2, 3)]


def run_case(P, res, riders, rng, shard):
    from ..build import build

    try:
        p_inputs, p_out = typecheck(P)
    except (IllTyped, Unsupported):
        res.count("generator:discarded-illtyped")
        return
    riders.before(P)
    core = in_core(P)
    try:
        with np.errstate(all="ignore"):
            R = build(P)
    except Exception as e:
        res.count("declined:%s" % type(e).__name__)
        res.case()
        if core:
            res.violation("core-declined", "core-fragment program raised %s: %s | %s" % (type(e).__name__, str(e)[:200], show(P)[:400]), case=P)
        after(P, res, riders)
        return
    riders.hold(R)
    try:
        v = compare(R, P, rng, also_bind=2)
    except Exception as e:  # the oracle must never take the worker down
        from ..oracle import Verdict

        res.count("harness:oracle-exception:%s" % type(e).__name__)
        v = Verdict("undecided", "oracle-exception", "%s: %s" % (type(e).__name__, e))
    ks = kinds_in(P)
    nonleaf = [k for k in ks if k not in ("ten", "num", "var")]
    for k in set(nonleaf):
        res.count("constructor:" + k)
    res.count("verdict:" + v.status + (":" + v.kind if v.kind and v.status != "ok" else ""))
    res.count("points-compared", v.points)
    res.count("points-skipped-undefined", v.skipped)
    ground = is_ground(R)
    res.count("result:" + ("ground" if ground else "lazy-remainder"))
    nontriv = v.status == "ok" and len(nonleaf) >= 2 and v.points >= 2
    res.case(key=digest(P) if nontriv else None, nontrivial=nontriv,
             sample={"program": show(P)[:300], "inputs": short(dict(p_inputs)), "points": v.points, "result": type(R).__name__} if nontriv else None)
    if v.status == "bad":
        from ..triage import localise

        t = localise(lambda: build(P), rng)
        if t.out_of_carrier and not t.culprits:
            res.count("skipped:out-of-carrier")
        else:
            res.violation("%s@%s" % (v.kind, t.key), "%s: %s | program: %s | culprit: %s" % (
                v.kind, v.detail, show(P)[:500], "; ".join(t.descriptions)[:600] or "none found among %d firings" % t.firings), case=P)
    if core:
        if ground:
            res.count("core:completed")
        else:
            res.violation("core-incomplete", "core-fragment program did not complete to a tensor (got %s): %s" % (type(R).__name__, show(P)[:400]), case=P)
    after(P, res, riders)


def after(P, res, riders):
    muts, rep = riders.after(None)
    for m in muts:
        res.count("M20:mutation-seen")
        res.violation("rider:mutation", "%s while evaluating %s" % (m, show(P)[:300]), case=P)
    if rep:
        res.violation("rider:stack", "%s after %s" % (rep, show(P)[:300]), case=P)


def replay(rep, res):
    from ..common import dec

    P = dec(rep["violation"]["case"])
    P = _retuple(P)
    rng = shard_rng(0, ID, "replay")
    run_case(P, res, Riders(res), rng, {})


def _retuple(x):
    if isinstance(x, list):
        return tuple(_retuple(y) for y in x)
    if isinstance(x, tuple):
        return tuple(_retuple(y) for y in x)
    return x
