"""C15 Op tables are truthful and ops agree across scalar and array operands.

Oracle: table axioms evaluated on carrier grids with numpy/math as the independent arithmetic;
scalar / 0-d / array agreement; exact limits of logaddexp/logsumexp/log-space einsum; safe ops never NaN.
"""
import itertools
import math

import numpy as np

from ..common import close, shard_rng, short

ID = "C15"
LEVEL = "exploration"
RULE = ("every entry of UNITS/DISTRIBUTIVE_OPS/BINARY_INVERSES/SAFE_BINARY_INVERSES/UNARY_INVERSES/PRODUCT_TO_POWER is "
        "checked on an edge grid x random values x shapes ()..(3,2) x both operand orders; every op of the catalogue is run "
        "on python scalar, 0-d array and arrays; a case is (section, op/table entry, operand class tuple, shape); it is "
        "non-trivial when at least one operand is an edge value or an array of rank>=1; distinct by that tuple")
ASSUMPTIONS = ["numpy/math/scipy arithmetic is the reference", "carriers: reals for add/mul/max/min/logaddexp, non-negative for (max|min,mul), booleans for and/or/xor"]
EXHAUSTIVE = {"quick": False, "thorough": False}
MIN_NONTRIVIAL = {"quick": 300, "thorough": 1000}

FMAX = float(np.finfo(np.float64).max)
TINY = float(np.finfo(np.float64).tiny)
EDGE = [0.0, 1.0, -1.0, 0.5, -0.5, 2.5, math.inf, -math.inf, TINY, FMAX, -FMAX, 3.0]
SHAPES = [(), (1,), (3,), (2, 2), (3, 2)]


def cls_of(x):
    x = float(x)
    if x == math.inf:
        return "+inf"
    if x == -math.inf:
        return "-inf"
    if x == 0:
        return "0" if math.copysign(1.0, x) > 0 else "-0"
    if 0 < abs(x) < TINY:
        return "denorm" if x > 0 else "-denorm"
    if abs(x) >= FMAX:
        return "+max" if x > 0 else "-max"
    if 0 < abs(x) <= TINY:
        return "tiny" if x > 0 else "-tiny"
    return "fin"


def plan(tier, seed):
    n = 1 if tier == "quick" else 6
    shards = []
    for sec in ("units", "distributive", "inverses", "power", "agreement", "limits", "safe"):
        for r in range(n):
            shards.append({"name": "%s-%d" % (sec, r), "section": sec, "rep": r, "timeout": 600})
    return shards


def _forms(rng, value, shape):
    """the same scalar value presented as python scalar, numpy scalar, 0-d array and a filled array"""
    out = [("py", value), ("0d", np.array(value))]
    if shape != ():
        out.append(("arr", np.full(shape, value)))
    return out


def _as_float(x):
    return np.asarray(x, dtype=np.float64)


def run_shard(shard, res):
    from funsor import ops

    rng = shard_rng(shard["seed"], "C15", shard["name"])
    sec = shard["section"]
    rand = [float(v) for v in np.round(rng.uniform(-3, 3, size=4 + 4 * shard["rep"]), 3)]
    grid = EDGE + rand
    finite = [v for v in grid if math.isfinite(v) and abs(v) < 1e6 and (v == 0 or abs(v) > 1e-6)]
    nonneg = [abs(v) for v in finite]
    bools = [True, False]

    def opname(op):
        return getattr(op, "name", None) or getattr(op, "__name__", str(op))

    def call(op, *args):
        with np.errstate(all="ignore"):
            return op(*args)

    def present(vals, shape, form):
        """present tuple of scalars in the given form"""
        if form == "py":
            return tuple(vals)
        if form == "0d":
            return tuple(np.array(v) for v in vals)
        return tuple(np.full(shape, v) for v in vals)

    def forms_for(shape):
        return ["py", "0d"] if shape == () else ["arr"]

    def check_eq(key, what, got, expect, case, nontriv):
        k = (sec, key, case)
        res.case(key=str(k), nontrivial=nontriv,
                 sample={"section": sec, "entry": key, "case": short(case), "got": short(np.asarray(got).tolist()), "expect": short(np.asarray(expect).tolist())})
        if np.isnan(_as_float(expect)).any():
            res.count("undefined-reference")
            return
        if not close(got, np.broadcast_to(np.asarray(expect), np.shape(got)) if np.shape(got) != np.shape(expect) else expect):
            res.violation(key, "%s: got %s expected %s on %s" % (what, short(np.asarray(got).tolist()), short(np.asarray(expect).tolist()), short(case)), case=case)

    # ------------------------------------------------------------------ UNITS
    if sec == "units":
        res.count("table-entries:UNITS", len(ops.UNITS))
        for op, unit in ops.UNITS.items():
            name = opname(op)
            if name in ("and_", "or_", "xor"):
                carrier = bools
            elif name in ("logaddexp", "sample"):
                carrier = [v for v in grid if v != math.inf]
            else:
                carrier = grid
            for x in carrier:
                for shape in SHAPES:
                    for form in forms_for(shape):
                        for order in (0, 1):
                            args = (x, unit) if order == 0 else (unit, x)
                            if name in ("and_", "or_", "xor") and form != "py":
                                a = tuple(np.full(shape, v, dtype=bool) for v in args)
                            else:
                                a = present(args, shape, form)
                            try:
                                got = call(op, *a)
                            except Exception as e:
                                res.count("declined:%s" % type(e).__name__)
                                continue
                            expect = np.full(shape, x) if form == "arr" else x
                            check_eq("units:" + name, "UNITS[%s]=%r is not neutral" % (name, unit), got, expect,
                                     (name, cls_of(x) if not isinstance(x, bool) else x, shape, form, order), True)
        return

    # ------------------------------------------------------------------ DISTRIBUTIVE
    if sec == "distributive":
        res.count("table-entries:DISTRIBUTIVE_OPS", len(ops.DISTRIBUTIVE_OPS))
        for sum_op, prod_op in sorted(ops.DISTRIBUTIVE_OPS, key=lambda p: (opname(p[0]), opname(p[1]))):
            s, p = opname(sum_op), opname(prod_op)
            if (s, p) == ("or_", "and_"):
                triples = list(itertools.product(bools, repeat=3))
            else:
                if p == "mul" and s in ("max", "min"):
                    car = nonneg
                elif p == "mul":
                    car = finite
                elif s == "logaddexp":
                    car = finite + [-math.inf]
                elif s == "sample":
                    # `sample` is a marker op (numeric reductions map it to logsumexp); its binary array form is the
                    # unstabilised default, so only finite operands are inside its carrier
                    car = finite
                elif s == "max":
                    car = finite + [-math.inf]
                elif s == "min":
                    car = finite + [math.inf]
                else:
                    car = finite
                car = [v for v in car if abs(v) < 1e3 or not math.isfinite(v)]
                idx = rng.integers(0, len(car), size=(120 + 200 * shard["rep"], 3))
                triples = [tuple(car[i] for i in row) for row in idx]
                triples += [(a, b, c) for a in car[:6] for b in car[:6] for c in car[:3]]
            for (a, b, c) in triples:
                for shape in ((), (3,), (3, 2)):
                    for form in forms_for(shape):
                        if (s, p) == ("or_", "and_") and form != "py":
                            A, B, C = (np.full(shape, v, dtype=bool) for v in (a, b, c))
                        else:
                            A, B, C = present((a, b, c), shape, form)
                        try:
                            lhs = call(prod_op, A, call(sum_op, B, C))
                            rhs = call(sum_op, call(prod_op, A, B), call(prod_op, A, C))
                            lhs2 = call(prod_op, call(sum_op, B, C), A)
                            rhs2 = call(sum_op, call(prod_op, B, A), call(prod_op, C, A))
                        except Exception as e:
                            res.count("declined:%s" % type(e).__name__)
                            continue
                        case = (s, p, a, b, c, shape, form)
                        check_eq("distributive:%s,%s" % (s, p), "(%s,%s) does not left-distribute" % (s, p), lhs, rhs, case, True)
                        check_eq("distributive:%s,%s" % (s, p), "(%s,%s) does not right-distribute" % (s, p), lhs2, rhs2, case, True)
                        # against independent numpy arithmetic
                        ref = _ref_bin(p, a, _ref_bin(s, b, c))
                        check_eq("distributive:%s,%s" % (s, p), "%s(a,%s(b,c)) differs from numpy" % (p, s), lhs, ref, case, True)
        return

    # ------------------------------------------------------------------ INVERSES
    if sec == "inverses":
        res.count("table-entries:BINARY_INVERSES", len(ops.BINARY_INVERSES))
        res.count("table-entries:SAFE_BINARY_INVERSES", len(ops.SAFE_BINARY_INVERSES))
        res.count("table-entries:UNARY_INVERSES", len(ops.UNARY_INVERSES))
        fin = [v for v in finite if abs(v) < 1e3]
        for tabname, table in (("binary_inverse", ops.BINARY_INVERSES), ("safe_binary_inverse", ops.SAFE_BINARY_INVERSES)):
            for op, inv in table.items():
                name = opname(op)
                if name == "xor":
                    pairs = list(itertools.product(bools, repeat=2))
                else:
                    pairs = [(a, b) for a in fin for b in fin if not (name == "mul" and b == 0)]
                for a, b in pairs:
                    for shape in ((), (3,), (3, 2)):
                        for form in forms_for(shape):
                            if name == "xor" and form != "py":
                                A, B = (np.full(shape, v, dtype=bool) for v in (a, b))
                            else:
                                A, B = present((a, b), shape, form)
                            if tabname == "safe_binary_inverse" and form == "py":
                                # safe ops are only registered for array second operands; scalar default defers to sub/truediv
                                pass
                            try:
                                got = call(inv, call(op, A, B), B)
                            except Exception as e:
                                res.count("declined:%s" % type(e).__name__)
                                continue
                            check_eq("%s:%s" % (tabname, name), "%s[%s]=%s does not invert" % (tabname, name, opname(inv)), got,
                                     np.full(shape, a) if form == "arr" else a, (name, a, b, shape, form), True)
        for op, inv in ops.UNARY_INVERSES.items():
            name = opname(op)
            unit = {"mul": 1.0, "add": 0.0}.get(name)
            if unit is None:
                res.count("unary-inverse-unknown-unit:" + name)
                continue
            for a in fin:
                if name == "mul" and a == 0:
                    continue
                for shape in ((), (3,), (3, 2)):
                    for form in forms_for(shape):
                        (A,) = present((a,), shape, form)
                        try:
                            got = call(op, A, call(inv, A))
                        except Exception as e:
                            res.count("declined:%s" % type(e).__name__)
                            continue
                        check_eq("unary_inverse:" + name, "UNARY_INVERSES[%s]=%s does not invert" % (name, opname(inv)), got,
                                 np.full(shape, unit) if form == "arr" else unit, (name, a, shape, form), True)
        return

    # ------------------------------------------------------------------ POWER
    if sec == "power":
        res.count("table-entries:PRODUCT_TO_POWER", len(ops.PRODUCT_TO_POWER))
        fin = [v for v in finite if abs(v) < 50]
        for op, pw in ops.PRODUCT_TO_POWER.items():
            name = opname(op)
            for a in fin:
                for n in (1, 2, 3, 4, 5):
                    for shape in ((), (3,), (3, 2)):
                        for form in forms_for(shape):
                            (A,) = present((a,), shape, form)
                            try:
                                acc = A
                                for _ in range(n - 1):
                                    acc = call(op, acc, A)
                                got = call(pw, A, n)
                            except Exception as e:
                                res.count("declined:%s" % type(e).__name__)
                                continue
                            ref = a * n if name == "add" else a ** n
                            check_eq("power:" + name, "PRODUCT_TO_POWER[%s]=%s is not the repeated product" % (name, opname(pw)), got, acc, (name, a, n, shape, form), True)
                            check_eq("power:" + name, "PRODUCT_TO_POWER[%s] differs from python arithmetic" % name, got,
                                     np.full(shape, ref) if form == "arr" else ref, (name, a, n, shape, form), True)
        return

    # ------------------------------------------------------------------ AGREEMENT scalar / 0-d / array
    if sec == "agreement":
        unary = {
            "neg": (lambda x: -x, grid), "abs": (abs, grid), "pos": (lambda x: +x, grid),
            "exp": (lambda x: np.exp(x), [v for v in grid if v < 700]),
            "log": (lambda x: np.log(x) if x > 0 else -math.inf, [v for v in grid if v >= 0]),
            "sqrt": (np.sqrt, [v for v in grid if v >= 0 and v != math.inf] + [math.inf]),
            "log1p": (np.log1p, [v for v in grid if v > -1 and v != math.inf]),
            "tanh": (np.tanh, [v for v in grid if math.isfinite(v)]),
            "atanh": (np.arctanh, [v for v in grid if abs(v) < 1]),
            "sigmoid": (lambda x: 1.0 / (1.0 + np.exp(-x)), [v for v in grid if abs(v) < 700]),
            "reciprocal": (lambda x: 1.0 / x, [v for v in grid if v != 0 and abs(v) > 1e-300]),
            "lgamma": (math.lgamma, [v for v in finite if v > 0]),
            "softplus": (lambda x: np.log1p(np.exp(x)), [v for v in finite if abs(v) < 30]),
        }
        for name, (ref, car) in unary.items():
            op = getattr(ops, name, None)
            if op is None:
                continue
            for x in car:
                try:
                    with np.errstate(all="ignore"):
                        expect = float(ref(x))
                except Exception:
                    continue
                results = {}
                for shape in SHAPES:
                    for form in forms_for(shape):
                        (A,) = present((x,), shape, form)
                        try:
                            got = call(op, A)
                        except Exception as e:
                            res.count("declined:%s:%s:%s" % (name, form, type(e).__name__))
                            continue
                        check_eq("agree:%s" % name, "%s(%s form) differs from reference" % (name, form), got,
                                 np.full(shape, expect) if form == "arr" else expect, (name, cls_of(x), x if cls_of(x) == "fin" else None, shape, form),
                                 cls_of(x) != "fin" or form == "arr")
        binref = {
            "add": np.add, "sub": np.subtract, "mul": np.multiply, "truediv": np.true_divide, "max": np.maximum, "min": np.minimum,
            "logaddexp": np.logaddexp, "eq": np.equal, "ne": np.not_equal, "lt": np.less, "le": np.less_equal, "gt": np.greater,
            "ge": np.greater_equal, "pow": np.power, "mod": np.mod, "floordiv": np.floor_divide, "safesub": np.subtract, "safediv": np.true_divide,
        }
        pairs_all = [(a, b) for a in grid for b in grid]
        for name, ref in binref.items():
            op = getattr(ops, name)
            for a, b in pairs_all:
                if name in ("truediv", "mod", "floordiv", "safediv") and (b == 0 or not math.isfinite(b) or abs(b) < 1e-300 or abs(b) >= FMAX):
                    continue
                if name in ("mod", "floordiv") and (not math.isfinite(a) or abs(a) >= 1e6 or abs(b) < 1e-6):
                    continue
                if name == "pow" and not (0 < a < 1e3 and abs(b) < 50):
                    continue
                if name in ("logaddexp",) and (a == math.inf or b == math.inf):
                    continue
                if name in ("safesub", "safediv") and not (math.isfinite(a) and math.isfinite(b) and abs(a) < 1e6 and abs(b) < 1e6):
                    continue  # outside finite operands the safe ops clip by design (checked in section "safe")
                with np.errstate(all="ignore"):
                    expect = ref(np.float64(a), np.float64(b))
                if np.isnan(expect):
                    continue
                for shape in SHAPES:
                    for form in forms_for(shape) + (["mixed-l", "mixed-r"] if shape != () else []):
                        if form == "mixed-l":
                            A, B = a, np.full(shape, b)
                        elif form == "mixed-r":
                            A, B = np.full(shape, a), b
                        else:
                            A, B = present((a, b), shape, form)
                        if name in ("safesub", "safediv") and form in ("py", "mixed-r"):
                            continue  # only array second operands are registered for the safe ops
                        try:
                            got = call(op, A, B)
                        except Exception as e:
                            res.count("declined:%s:%s:%s" % (name, form, type(e).__name__))
                            continue
                        if got is None:
                            res.count("declined:%s:%s:None" % (name, form))
                            continue
                        check_eq("agree:%s" % name, "%s(%s form) differs from numpy" % (name, form), got,
                                 np.full(shape, expect) if shape != () else expect, (name, cls_of(a), cls_of(b), a if cls_of(a) == "fin" else None, b if cls_of(b) == "fin" else None, shape, form), True)
        for name, ref in (("and_", np.logical_and), ("or_", np.logical_or), ("xor", np.logical_xor)):
            op = getattr(ops, name)
            for a, b in itertools.product(bools, repeat=2):
                for shape in SHAPES:
                    for form in forms_for(shape):
                        A, B = (a, b) if form == "py" else tuple(np.full(shape, v, dtype=bool) for v in (a, b))
                        got = call(op, A, B)
                        check_eq("agree:%s" % name, "%s differs from logic" % name, got, np.full(shape, ref(a, b)) if shape != () else bool(ref(a, b)), (name, a, b, shape, form), True)
        op = ops.invert
        for a in bools:
            for shape in SHAPES[1:]:
                got = call(op, np.full(shape, a, dtype=bool))
                check_eq("agree:invert", "invert differs", got, np.full(shape, not a), ("invert", a, shape), True)
        return

    # ------------------------------------------------------------------ LIMITS
    if sec == "limits":
        import scipy.special

        from funsor.einsum import numpy_log, numpy_map

        lim = [-math.inf, -FMAX, -1e300, -745.0, -1.0, 0.0, 1.0, 709.0, 1e300, FMAX] + rand
        for a, b in itertools.product(lim, repeat=2):
            expect = float(np.logaddexp(a, b))
            for shape in SHAPES:
                for form in forms_for(shape) + (["mixed-l", "mixed-r"] if shape != () else []):
                    if form == "mixed-l":
                        A, B = a, np.full(shape, b)
                    elif form == "mixed-r":
                        A, B = np.full(shape, a), b
                    else:
                        A, B = present((a, b), shape, form)
                    try:
                        got = call(ops.logaddexp, A, B)
                    except Exception as e:
                        res.count("declined:logaddexp:%s:%s" % (form, type(e).__name__))
                        continue
                    check_eq("limit:logaddexp", "logaddexp not the exact limit (%s)" % form, got, np.full(shape, expect) if shape != () else expect,
                             ("logaddexp", cls_of(a), cls_of(b), a, b, shape, form), True)
        # logsumexp with -inf / huge entries
        for shape in [(3,), (2, 3), (3, 2), (2, 2, 2), (1,), (4,)]:
            for rep in range(12 + 20 * shard["rep"]):
                x = rng.choice(np.array(lim), size=shape)
                if rep % 4 == 0:
                    x = np.full(shape, -math.inf)
                for axis in [None] + list(range(len(shape))):
                    for keepdims in (False, True):
                        expect = scipy.special.logsumexp(x, axis=axis, keepdims=keepdims)
                        try:
                            got = call(ops.logsumexp, x, axis, keepdims)
                        except Exception as e:
                            res.count("declined:logsumexp:%s" % type(e).__name__)
                            continue
                        check_eq("limit:logsumexp", "logsumexp not the exact limit", got, expect, ("logsumexp", x, axis, keepdims), True)
        # log-space and max-plus einsum vs brute force
        eqs = ["a,a->", "ab,b->a", "ab,bc->ac", "ab,bc->", "a,ab,b->", "ab->a", "ab->ba", "abc,c->ab", "a,b->ab", "ab,ab->ab", "ab,a->b", "a->a", "ab->ab"]
        sizes = {"a": 2, "b": 3, "c": 2}
        # The shift-and-exponentiate method has a dynamic range of ~700 per operand by construction; the property
        # speaks of -inf operands and operands near the float range boundary, so every operand is
        # base_k + moderate noise (base_k in {0, +-huge}) with entries independently replaced by -inf.
        moderate = np.array([-20.0, -3.0, -1.0, 0.0, 0.5, 2.0, 20.0])
        for eq in eqs:
            ins, out = eq.split("->")
            ins = ins.split(",")
            for rep in range(8 + 10 * shard["rep"]):
                mode = rep % 4
                operands = []
                sign = float(rng.choice([-1.0, 1.0]))  # one sign per equation: opposite huge bases cancel catastrophically
                for dims in ins:
                    shp = tuple(sizes[d] for d in dims)
                    base = 0.0 if mode in (0, 3) else sign * float(rng.choice([FMAX / 8, 1e300, 0.0]))
                    o = base + rng.choice(moderate, size=shp)
                    pinf = 0.0 if mode == 2 else 0.3 if mode != 3 else 0.7
                    o = np.where(rng.random(shp) < pinf, -math.inf, o)
                    operands.append(o)
                for backend, red in ((numpy_log, "lse"), (numpy_map, "max")):
                    expect = _brute_einsum(ins, out, operands, sizes, red)
                    try:
                        got = call(backend.einsum, eq, *[o.copy() for o in operands])
                    except Exception as e:
                        res.count("declined:einsum:%s" % type(e).__name__)
                        continue
                    check_eq("limit:%s.einsum" % backend.__name__.split(".")[-1], "log-space einsum %s not exact" % eq, got, expect, (backend.__name__, eq, operands), True)
        return

    # ------------------------------------------------------------------ SAFE ops never NaN
    if sec == "safe":
        safe_grid = EDGE + rand + [-0.0, 5e-324, -5e-324, -TINY]
        for name in ("safesub", "safediv"):
            op = getattr(ops, name)
            for a, b in itertools.product(safe_grid, repeat=2):
                for shape in SHAPES:
                    for form in (["0d"] if shape == () else ["arr", "mixed-l"]):
                        if form == "mixed-l":
                            A, B = a, np.full(shape, b)
                        else:
                            A, B = present((a, b), shape, form)
                        try:
                            got = call(op, A, B)
                        except Exception as e:
                            res.count("declined:%s:%s" % (name, type(e).__name__))
                            continue
                        ca, cb = cls_of(a), cls_of(b)
                        key = "safe-nan:%s(%s,%s)" % (name, ca, cb)
                        res.case(key=str((name, ca, cb, shape, form)), nontrivial=True, sample={"section": "safe", "op": name, "a": short(a), "b": short(b), "got": short(np.asarray(got).tolist())})
                        if np.isnan(_as_float(got)).any():
                            res.violation(key, "%s(%r, %r) produced NaN" % (name, a, b), case=(name, a, b, shape, form))
        for x in safe_grid:
            for shape in SHAPES:
                for form in (["0d"] if shape == () else ["arr"]):
                    (A,) = present((x,), shape, form)
                    try:
                        got = call(ops.reciprocal, A)
                    except Exception as e:
                        res.count("declined:reciprocal:%s" % type(e).__name__)
                        continue
                    key = "safe-nan:reciprocal(%s)" % cls_of(x)
                    res.case(key=str(("reciprocal", cls_of(x), shape, form)), nontrivial=True)
                    if np.isnan(_as_float(got)).any():
                        res.violation(key, "reciprocal(%r) produced NaN" % x, case=("reciprocal", x, shape, form))
                    if x == 0 and not np.all(np.isfinite(_as_float(got))) and math.copysign(1, x) > 0:
                        res.violation("safe:reciprocal(0)-unclipped", "reciprocal(0.0) is not clipped to the float maximum: %s" % short(np.asarray(got).tolist()), case=("reciprocal", x, shape, form))
        return
    raise ValueError(sec)


def _ref_bin(name, a, b):
    with np.errstate(all="ignore"):
        if name == "add":
            return np.add(a, b)
        if name == "mul":
            return np.multiply(a, b)
        if name == "max":
            return np.maximum(a, b)
        if name == "min":
            return np.minimum(a, b)
        if name in ("logaddexp", "sample"):
            return np.logaddexp(a, b)
        if name == "and_":
            return np.logical_and(a, b)
        if name == "or_":
            return np.logical_or(a, b)
    raise ValueError(name)


def _brute_einsum(ins, out, operands, sizes, red):
    import scipy.special

    names = sorted(set("".join(ins)))
    contract = [n for n in names if n not in out]
    result = np.empty(tuple(sizes[d] for d in out))
    for opt in itertools.product(*[range(sizes[d]) for d in out]):
        env = dict(zip(out, opt))
        terms = []
        for cpt in itertools.product(*[range(sizes[d]) for d in contract]):
            env.update(zip(contract, cpt))
            with np.errstate(all="ignore"):
                terms.append(sum(float(o[tuple(env[d] for d in dims)]) for dims, o in zip(ins, operands)))
        with np.errstate(all="ignore"):
            result[opt] = scipy.special.logsumexp(terms) if red == "lse" else max(terms)
    return result
