"""C10 Markov products equal the explicit left-to-right fold over time.

Oracle: numpy loop over time with explicit semiring matrix products over the flattened intermediate state; for lagged models an
explicit unrolling over absolute time indices (brute force), and the naive counterpart.
"""
import itertools

import numpy as np
import scipy.special

from ..common import close, digest, shard_rng
from ..monitors import Riders

ID = "C10"
LEVEL = "exploration"
RULE = ("transition tensors over a time input of length 1..12, 1-3 (prev,curr) state pairs of sizes 1-3, 0-2 batch inputs, random input "
        "order, time-dependent or not, 5 semirings; entry points sequential_sum_product, naive_sequential_sum_product, "
        "mixed_sequential_sum_product for every num_segments 1..T, MarkovProduct eager and lazy+reinterpret (+ renaming of its inputs), "
        "optional free real parameter; sarkka_bilmes_product for lag sets within {1,2,3}, several num_periods, vs its naive counterpart "
        "and vs an unrolled brute-force fold. A case is (entry point family, semiring, T, state sizes, batch sizes, segments/lags); "
        "non-trivial when T>=2; distinct by that tuple plus data hash")
ASSUMPTIONS = ["numpy/scipy semiring arithmetic", "declines (e.g. Cat assertion for time-independent transitions) are counted, not violations"]
MIN_NONTRIVIAL = {"quick": 1200, "thorough": 12000}
REQUIRED_COUNTERS = ["sequential:ok", "naive:ok", "mixed:ok", "markov-eager:ok", "markov-lazy:ok", "sarkka:ok", "sarkka-vs-naive:ok"]

SEMIRINGS = [("add", "mul"), ("logaddexp", "add"), ("max", "add"), ("min", "add"), ("max", "mul")]
PROD = {"mul": np.multiply, "add": np.add}


def sum_reduce(op, x, axis):
    if op == "add":
        return np.sum(x, axis=axis)
    if op == "logaddexp":
        return scipy.special.logsumexp(x, axis=axis)
    if op == "max":
        return np.max(x, axis=axis)
    return np.min(x, axis=axis)


def fold(sum_op, prod_op, M):
    """M: array (T, B..., S, S) -> (B..., S, S): left-to-right semiring matrix product"""
    R = M[0]
    for t in range(1, M.shape[0]):
        R = sum_reduce(sum_op, PROD[prod_op](R[..., :, :, None], M[t][..., None, :, :]), axis=-2)
    return R


def plan(tier, seed):
    shards = []
    n = 12 if tier == "quick" else 40
    for i in range(n):
        shards.append({"name": "markov-%d" % i, "kind": "markov", "n": 120 if tier == "quick" else 500, "timeout": 3000})
    nl = 6 if tier == "quick" else 24
    for i in range(nl):
        shards.append({"name": "lagged-%d" % i, "kind": "lagged", "n": 100 if tier == "quick" else 400, "timeout": 3000})
    return shards


def make_transition(rng, T, pairs, batch, time_dep, nonneg):
    """returns (names order, array, canonical array (T,B...,S,S), info)"""
    sizes = {}
    prevs, currs = [], []
    # names are drawn so that the alphabetical order of the previous names need not agree with that of their partners
    pool = [str(x) for x in rng.permutation(list("abcdefgh"))]
    for i, s in enumerate(pairs):
        pn, cn = pool[2 * i], pool[2 * i + 1]
        if rng.random() < 0.3:
            pn, cn = "p%d" % i, "c%d" % i
        prevs.append(pn)
        currs.append(cn)
        sizes[pn] = s
        sizes[cn] = s
    bnames = ["z%d" % i for i in range(len(batch))]
    for n, s in zip(bnames, batch):
        sizes[n] = s
    sizes["time"] = T
    canon_names = (["time"] if time_dep else []) + bnames + prevs + currs
    canon = np.round(rng.uniform(0.25, 1.75, size=tuple(sizes[n] for n in canon_names)), 2)
    if not nonneg:
        canon = canon - 1.0
    order = list(canon_names)
    rng.shuffle(order)
    data = np.ascontiguousarray(np.transpose(canon, [canon_names.index(n) for n in order]))
    full = canon if time_dep else np.broadcast_to(canon, (T,) + canon.shape)
    S = int(np.prod(pairs))
    M = full.reshape((T,) + tuple(batch) + (S, S))
    return order, data, M, sizes, prevs, currs, bnames


def read_markov(r, sizes, prevs, currs, bnames, prev_names=None, curr_names=None, xval=None):
    """funsor result -> array (B..., S, S) in canonical order; missing inputs broadcast"""
    import funsor
    from funsor.tensor import Tensor
    from funsor.terms import Number

    r = funsor.to_funsor(r)
    if xval is not None and "x" in r.inputs:
        r = r(x=Tensor(np.asarray(xval)))
    prev_names = prev_names or prevs
    curr_names = curr_names or currs
    want = bnames + prev_names + curr_names
    wsizes = [sizes[n] for n in bnames] + [sizes[p] for p in prevs] + [sizes[c] for c in currs]
    extra = set(r.inputs) - set(want)
    if extra:
        return None, "result has unexpected inputs %s (expected among %s)" % (sorted(extra), want)
    if isinstance(r, Number):
        data = np.broadcast_to(np.asarray(r.data, dtype=float), tuple(wsizes))
    elif isinstance(r, Tensor):
        present = [n for n in want if n in r.inputs]
        a = r.align(tuple(present)).data if present else r.data
        shape = tuple(s if n in r.inputs else 1 for n, s in zip(want, wsizes))
        data = np.broadcast_to(np.asarray(a).reshape(shape), tuple(wsizes))
    else:
        return None, "lazy:%s" % type(r).__name__
    nb = len(bnames)
    S = int(np.prod([sizes[p] for p in prevs])) if prevs else 1
    return data.reshape(tuple(wsizes[:nb]) + (S, S)), None


def run_markov_case(rng, res, riders):
    from collections import OrderedDict

    import funsor
    from funsor import ops
    from funsor.domains import Bint, Real
    from funsor.interpretations import lazy
    from funsor.sum_product import (MarkovProduct, mixed_sequential_sum_product, naive_sequential_sum_product, sequential_sum_product)
    from funsor.tensor import Tensor
    from funsor.terms import Variable

    T = int(rng.integers(1, 13))
    npairs = int(rng.choice([1, 1, 2, 3]))
    pairs = [int(rng.integers(1, 4)) for _ in range(npairs)]
    if int(np.prod(pairs)) > 9:
        pairs = pairs[:2]
    batch = [int(rng.integers(1, 4)) for _ in range(int(rng.integers(0, 3)))]
    time_dep = rng.random() < 0.85
    sr = SEMIRINGS[int(rng.integers(len(SEMIRINGS)))]
    s, p = sr
    order, data, M, sizes, prevs, currs, bnames = make_transition(rng, T, pairs, batch, time_dep, nonneg=(sr == ("max", "mul")))
    riders.before(data)
    expect = fold(s, p, M)
    sum_op, prod_op = getattr(ops, s), getattr(ops, p)
    trans = Tensor(data, OrderedDict((n, Bint[sizes[n]]) for n in order))
    time = Variable("time", Bint[T])
    step = dict(zip(prevs, currs))
    use_x = rng.random() < 0.15 and s in ("add", "logaddexp")
    xval = 0.5 if use_x else None
    if use_x:
        trans_x = prod_op(trans, Variable("x", Real))
        expect_x = fold(s, p, PROD[p](M, xval))
    struct = (sr, T, tuple(pairs), tuple(batch), time_dep, tuple(order), use_x)
    case = {"semiring": list(sr), "T": T, "pairs": pairs, "batch": batch, "order": order, "data": data, "time_dep": time_dep}
    anyok = False

    def check(label, thunk, prev_names=None, curr_names=None, want=None, detail=""):
        nonlocal anyok
        try:
            with np.errstate(all="ignore"):
                r = thunk()
        except Exception as e:
            res.count("%s:declined:%s" % (label, type(e).__name__))
            return
        got, err = read_markov(r, sizes, prevs, currs, bnames, prev_names, curr_names, xval)
        if err and err.startswith("lazy"):
            res.count("%s:%s" % (label, err))
            return
        w = expect if want is None else want
        msg = err
        if msg is None and not close(got, w, rtol=1e-6):
            bad = np.argwhere(~np.isclose(got, w, rtol=1e-6, atol=1e-9, equal_nan=True))
            i = tuple(bad[0]) if len(bad) else ()
            msg = "differs from the left-to-right fold at index %s: got %s expected %s" % (i, got[i] if len(bad) else "?", w[i] if len(bad) else "?")
        if msg:
            res.count("%s:bad" % label)
            res.violation("markov:%s" % label, "%s(%s,%s) T=%d pairs=%s batch=%s time_dep=%s order=%s %s: %s" % (label, s, p, T, pairs, batch, time_dep, order, detail, msg), case=case)
        else:
            res.count("%s:ok" % label)
            anyok = True

    check("sequential", lambda: sequential_sum_product(sum_op, prod_op, trans, time, step))
    check("naive", lambda: naive_sequential_sum_product(sum_op, prod_op, trans, time, step))
    segs = list(range(1, T + 1))
    if len(segs) > 6:
        segs = sorted(set([1, 2, 3, T - 1, T] + [int(v) for v in rng.integers(1, T + 1, size=3)]))
    for ns in segs:
        check("mixed", lambda ns=ns: mixed_sequential_sum_product(sum_op, prod_op, trans, time, step, num_segments=ns), detail="num_segments=%d" % ns)
    check("markov-eager", lambda: MarkovProduct(sum_op, prod_op, trans, time, step))

    def lazy_route():
        with lazy:
            m = MarkovProduct(sum_op, prod_op, trans, time, step)
        return funsor.reinterpret(m)

    check("markov-lazy", lazy_route)
    # renaming the inputs of a lazy MarkovProduct (step_names bookkeeping)
    ren_p = ["q%d" % i for i in range(len(prevs))]
    ren_c = ["d%d" % i for i in range(len(currs))]
    sizes.update({q: sizes[pn] for q, pn in zip(ren_p, prevs)})
    sizes.update({d: sizes[cn] for d, cn in zip(ren_c, currs)})

    def renamed_route():
        with lazy:
            m = MarkovProduct(sum_op, prod_op, trans, time, step)
            m2 = m(**dict(zip(prevs + currs, ren_p + ren_c)))
        return funsor.reinterpret(m2)

    check("markov-renamed", renamed_route, prev_names=ren_p, curr_names=ren_c)
    if use_x:
        check("sequential-realparam", lambda: sequential_sum_product(sum_op, prod_op, trans_x, time, step), want=expect_x)
        check("markov-realparam", lambda: MarkovProduct(sum_op, prod_op, trans_x, time, step), want=expect_x)
    res.case(key=digest(struct) if anyok and T >= 2 else None, nontrivial=anyok and T >= 2,
             sample={"semiring": list(sr), "T": T, "state_pairs": pairs, "batch": batch, "input_order": order, "time_dependent": time_dep} if anyok else None)
    finish_case(res, riders, case)


def finish_case(res, riders, case):
    muts, rep = riders.after(None)
    for m in muts:
        res.violation("rider:mutation", m, case=case)
    if rep:
        res.violation("rider:stack", rep, case=case)


# ---------------------------------------------------------------------------
# time-lagged models


def lag_name(name, k):
    return "_PREV_" * k + name


def brute_lagged(sum_op, prod_op, data, names, sizes, T, var_lags, bnames):
    """data axes follow `names` (time first, then batch, then for each var: lag 0..L). Unrolls over absolute time.
    returns array over (batch..., then for each var: final value x_{T-1}, history x_{-1}.. x_{-L}) in canonical order"""
    vars_ = sorted(var_lags)
    # absolute-time variables: (v, t) for t in -L_v .. T-1
    abs_vars = [(v, t) for v in vars_ for t in range(-var_lags[v], T)]
    keep = [(v, T - 1) for v in vars_] + [(v, -k) for v in vars_ for k in range(1, var_lags[v] + 1) if True]
    # when T-1-lag... history variables are x_{-1}..x_{-L}; if T is small x_{T-1} may coincide with none of them (T>=1)
    summed = [av for av in abs_vars if av not in keep]
    out_shape = tuple(sizes[b] for b in bnames) + tuple(sizes[v] for v, _ in keep)
    out = np.empty(out_shape)
    for bidx in itertools.product(*[range(sizes[b]) for b in bnames]):
        for kidx in itertools.product(*[range(sizes[v]) for v, _ in keep]):
            env = dict(zip(keep, kidx))
            total = None
            for sidx in itertools.product(*[range(sizes[v]) for v, _ in summed]):
                env.update(zip(summed, sidx))
                prod = None
                for t in range(T):
                    index = []
                    for n in names:
                        if n == "time":
                            index.append(t)
                        elif n in bnames:
                            index.append(bidx[bnames.index(n)])
                        else:
                            k = n.count("_PREV_")
                            v = n.replace("_PREV_", "")
                            index.append(env[(v, t - k)])
                    val = data[tuple(index)]
                    prod = val if prod is None else PROD[prod_op](prod, val)
                total = prod if total is None else {"add": np.add, "logaddexp": np.logaddexp, "max": np.maximum, "min": np.minimum}[sum_op](total, prod)
            out[bidx + kidx] = total
    keep_names = [v for v, t in keep[: len(vars_)]] + [lag_name(v, -t) for v, t in keep[len(vars_):]]
    return keep_names, out


def run_lagged_case(rng, res, riders):
    from collections import OrderedDict

    from funsor import ops
    from funsor.domains import Bint
    from funsor.sum_product import naive_sarkka_bilmes_product, sarkka_bilmes_product
    from funsor.tensor import Tensor
    from funsor.terms import Number, Variable
    import funsor

    T = int(rng.integers(1, 11)) if rng.random() < 0.75 else int(rng.integers(11, 15))
    nvars = int(rng.choice([1, 1, 2]))
    var_lags = {}
    for v in ["x", "y"][:nvars]:
        var_lags[v] = int(rng.choice([1, 1, 2, 3]))
    sizes = {v: int(rng.integers(1, 3)) for v in var_lags}
    bnames = ["b0"] if rng.random() < 0.3 else []
    for b in bnames:
        sizes[b] = int(rng.integers(1, 3))
    sizes["time"] = T
    # each var appears at lag 0 and at a subset of lags 1..L including L
    names = ["time"] + bnames
    for v, L in var_lags.items():
        names.append(v)
        for k in range(1, L + 1):
            if k == L or rng.random() < 0.6:
                names.append(lag_name(v, k))
    for n in names:
        if n not in sizes:
            sizes[n] = sizes[n.replace("_PREV_", "")]
    total_states = 1
    for v, L in var_lags.items():
        total_states *= sizes[v] ** (T + L)
    sr = SEMIRINGS[int(rng.integers(4))]
    s, p = sr
    data = np.round(rng.uniform(0.25, 1.75, size=tuple(sizes[n] for n in names)), 2) - (0 if p == "mul" else 1.0)
    riders.before(data)
    order = list(names)
    rng.shuffle(order)
    arr = np.ascontiguousarray(np.transpose(data, [names.index(n) for n in order]))
    trans = Tensor(arr, OrderedDict((n, Bint[sizes[n]]) for n in order))
    time = Variable("time", Bint[T])
    sum_op, prod_op = getattr(ops, s), getattr(ops, p)
    gv = frozenset(bnames)
    lags_present = sorted({n.count("_PREV_") for n in names if n.count("_PREV_")})
    struct = (sr, T, tuple(sorted(var_lags.items())), tuple(sorted(names)), tuple(order), tuple(sorted(sizes.items())))
    case = {"semiring": list(sr), "T": T, "names": order, "sizes": sizes, "data": arr}
    results = {}
    import math

    period = 1
    for lg in lags_present:
        period = period * lg // math.gcd(period, lg)
    for label, fn, kw in [("naive", naive_sarkka_bilmes_product, {})] + [("sarkka-np%d" % k, sarkka_bilmes_product, {"num_periods": k}) for k in (1, 2, 3)]:
        if kw:
            # the blocked algorithm materialises a tensor over (num_periods * period + lag) copies of every variable: keep it below
            # 2**21 entries (a few of these once took > 10 GB each and were killed by the kernel)
            bits = sum((min(T, kw["num_periods"] * period) + var_lags[v]) * math.log2(sizes[v]) for v in var_lags)
            if bits > 21:
                res.count("sarkka:skipped-too-large")
                continue
        try:
            with np.errstate(all="ignore"):
                results[label] = funsor.to_funsor(fn(sum_op, prod_op, trans, time, gv, **kw))
        except Exception as e:
            res.count("%s:declined:%s" % (label.split("-")[0], type(e).__name__))

    def table(r, keep_names):
        extra = set(r.inputs) - set(keep_names) - set(bnames)
        if extra:
            return None, "unexpected inputs %s" % sorted(extra)
        want = bnames + keep_names
        wsz = [sizes[n] if n in sizes else sizes[n.replace("_PREV_", "")] for n in want]
        if isinstance(r, Number):
            return np.broadcast_to(np.asarray(r.data, dtype=float), tuple(wsz)), None
        if not isinstance(r, Tensor):
            return None, "lazy:%s" % type(r).__name__
        present = [n for n in want if n in r.inputs]
        a = r.align(tuple(present)).data if present else r.data
        return np.broadcast_to(np.asarray(a).reshape(tuple(sz if n in r.inputs else 1 for n, sz in zip(want, wsz))), tuple(wsz)), None

    ok_any = False
    ref = None
    if total_states <= 20000:
        keep_names, ref = brute_lagged(s, p, data, names, sizes, T, var_lags, bnames)
    else:
        keep_names = sorted(var_lags) + [lag_name(v, k) for v in sorted(var_lags) for k in range(1, var_lags[v] + 1)]
        res.count("lagged:brute-force-skipped")
    naive_tab = None
    if "naive" in results:
        naive_tab, err = table(results["naive"], keep_names)
        if err:
            res.count("naive-lagged:%s" % err[:20])
            naive_tab = None
    for label, r in results.items():
        tab, err = table(r, keep_names)
        fam = "sarkka" if label.startswith("sarkka") else "naive-lagged"
        if err and err.startswith("lazy"):
            res.count("%s:%s" % (fam, err))
            continue
        msgs = []
        if err:
            msgs.append(err)
        else:
            if ref is not None:
                if not close(tab, ref, rtol=1e-6):
                    msgs.append("differs from the unrolled fold")
                else:
                    res.count("%s:ok" % fam)
                    ok_any = True
            if fam == "sarkka" and naive_tab is not None:
                if not close(tab, naive_tab, rtol=1e-6):
                    msgs.append("differs from naive_sarkka_bilmes_product")
                else:
                    res.count("sarkka-vs-naive:ok")
                    ok_any = True
        for m in msgs:
            res.count("%s:bad" % fam)
            res.violation("markov:%s" % fam, "%s(%s,%s) T=%d names=%s sizes=%s lags=%s: %s" % (label, s, p, T, order, {k: v for k, v in sizes.items() if k in order}, lags_present, m), case=case)
    res.case(key=digest(struct) if ok_any and T >= 2 else None, nontrivial=ok_any and T >= 2,
             sample={"semiring": list(sr), "T": T, "inputs": order, "lags": lags_present} if ok_any else None)
    finish_case(res, riders, case)


def run_shard(shard, res):
    rng = shard_rng(shard["seed"], ID, shard["name"])
    riders = Riders(res)
    for _ in range(shard["n"]):
        if shard["kind"] == "markov":
            run_markov_case(rng, res, riders)
        else:
            run_lagged_case(rng, res, riders)


def workload(rng, n):
    from collections import OrderedDict

    from funsor import ops
    from funsor.domains import Bint
    from funsor.sum_product import MarkovProduct, sequential_sum_product
    from funsor.tensor import Tensor
    from funsor.terms import Variable

    for i in range(n):
        T = int(rng.integers(1, 9))
        pairs = [int(rng.integers(1, 4))]
        sr = SEMIRINGS[int(rng.integers(len(SEMIRINGS)))]
        order, data, M, sizes, prevs, currs, bnames = make_transition(rng, T, pairs, [int(rng.integers(1, 3))], True, sr == ("max", "mul"))

        def thunk(order=order, data=data, sizes=sizes, prevs=prevs, currs=currs, sr=sr, T=T, i=i):
            trans = Tensor(data, OrderedDict((k, Bint[sizes[k]]) for k in order))
            f = sequential_sum_product if i % 2 else MarkovProduct
            return f(getattr(ops, sr[0]), getattr(ops, sr[1]), trans, Variable("time", Bint[T]), dict(zip(prevs, currs)))

        yield "markov(%s,%s)" % sr, [data], thunk
