"""C03 Exact interpretations are interchangeable: deferred equals immediate.

Oracle: triple agreement (route result vs direct eager result vs reference evaluator). Routes: build under lazy / reflect /
normalize / memoize()+X then reinterpret (funsor.reinterpret, recursion_reinterpret, stack_reinterpret), build under
sequential / moment_matching, nested context managers (innermost decides), in subprocesses with FUNSOR_USE_TCO x
FUNSOR_TYPECHECK. Memoize: identity of repeated builds, and a shadow map (M03) on every cache hit.
"""
import gc
import itertools

import numpy as np

from ..common import digest, shard_rng
from ..gen.e1 import Gen
from ..gen.e4 import SEMIRINGS, SemiringGen
from ..ir import IllTyped, Unsupported, kinds_in, show, typecheck
from ..monitors import Riders, array_hash
from ..oracle import Verdict, compare, is_ground

ID = "C03"
LEVEL = "exploration"
RULE = ("E1 tensor-algebra programs (ground and carrier modes) and E4 semiring programs; each built directly (eager) and through every "
        "route {lazy, reflect, normalize, memoize()+lazy, memoize()+eager} x {reinterpret, recursion_reinterpret, stack_reinterpret}, "
        "{sequential, moment_matching} direct, and all nestings up to depth 3 of the context managers; shards run with "
        "FUNSOR_USE_TCO in {0,1} x FUNSOR_TYPECHECK in {0,1}. A case is (program, env config); non-trivial when >=3 routes completed "
        "and >=2 points compared; distinct by (IR hash, env config)")
ASSUMPTIONS = ["fv/refsem.py is the reference", "declines (exceptions) are counted, never violations"]
MIN_NONTRIVIAL = {"quick": 2500, "thorough": 30000}
REQUIRED_COUNTERS = ["route:lazy+reinterpret:ok", "route:reflect+stack_reinterpret:ok", "route:normalize+recursion_reinterpret:ok",
                     "route:sequential:ok", "route:moment_matching:ok", "memo:identity-checked", "M03:hits-checked", "route:nested:ok"]

CONFIGS = [{"FUNSOR_USE_TCO": "0", "FUNSOR_TYPECHECK": "0"}, {"FUNSOR_USE_TCO": "1", "FUNSOR_TYPECHECK": "0"},
           {"FUNSOR_USE_TCO": "0", "FUNSOR_TYPECHECK": "1"}, {"FUNSOR_USE_TCO": "1", "FUNSOR_TYPECHECK": "1"}]
NEST_KINDS = ["eager", "lazy", "reflect", "normalize", "sequential", "moment_matching", "memoize"]


def plan(tier, seed):
    shards = []
    n = 16 if tier == "quick" else 64
    per = 400 if tier == "quick" else 1500
    modes = ["free", "semiring", "arith", "tropical", "nonneg"]
    for i in range(n):
        cfg = CONFIGS[(i // len(modes) + i) % 4]      # every mode meets several interpreter configurations, also in the quick tier
        mode = modes[i % len(modes)]
        shards.append({"name": "s%d-%s-tco%s-tc%s" % (i, mode, cfg["FUNSOR_USE_TCO"], cfg["FUNSOR_TYPECHECK"]),
                       "mode": mode, "env": dict(cfg), "n": per, "depth": 2 + (i % 2), "timeout": 3000})
    return shards


class MemoMonitor:
    """M03: shadow of Memoize caches; on every hit the stored request must be the current one"""

    def __init__(self, res):
        import funsor.interpretations as I

        self.res = res
        self.shadow = {}
        self.problems = []
        mon = self
        if getattr(I.Memoize.interpret, "_fv_wrapped", False):
            return
        orig = I.Memoize.interpret

        def describe(cls, args):
            out = [getattr(cls, "__name__", str(cls))]
            for a in args:
                if isinstance(a, np.ndarray):
                    out.append(("arr", array_hash(a)))
                elif hasattr(a, "inputs") and hasattr(a, "output"):
                    out.append(("funsor", id(a)))
                else:
                    try:
                        hash(a)
                        out.append(("val", a))  # hashable arguments are keyed by ==, so Number(2) and Number(2.0) are one request
                    except TypeError:
                        out.append(("unhashable", id(a)))
            return tuple(out)

        def interpret(self_, cls, *args):
            key = self_.make_hash_key(cls, *args)
            skey = (id(self_.cache), key)
            hit = self_.cache.get(key) is not None
            value = orig(self_, cls, *args)
            d = describe(cls, args)
            if hit:
                mon.res.count("M03:hits-checked")
                old = mon.shadow.get(skey)
                if old is not None and old[0] != d:
                    mon.problems.append("memo hit for %s returned a result stored for different arguments: stored %s, requested %s" % (d[0], old[0], d))
                if old is not None and old[1] is not value:
                    mon.problems.append("memo hit for %s returned an object other than the stored one" % (d[0],))
            else:
                mon.shadow[skey] = (d, value)
                mon.res.count("M03:misses")
            return value

        interpret._fv_wrapped = True
        I.Memoize.interpret = interpret

    def drain(self):
        p = self.problems
        self.problems = []
        if len(self.shadow) > 20000:
            self.shadow.clear()
        return p


def run_shard(shard, res):
    import funsor.interpreter as interpreter

    rng = shard_rng(shard["seed"], ID, shard["name"])
    riders = Riders(res)
    memo = MemoMonitor(res)
    res.observe("env-configs", "TCO=%s TYPECHECK=%s" % (interpreter._USE_TCO, interpreter._TYPECHECK))
    assert str(interpreter._USE_TCO) == shard["env"]["FUNSOR_USE_TCO"] and str(interpreter._TYPECHECK) == shard["env"]["FUNSOR_TYPECHECK"]
    mode = shard["mode"]
    for n in range(shard["n"]):
        if mode == "semiring":
            sr = SEMIRINGS[int(rng.integers(len(SEMIRINGS)))]
            P = SemiringGen(rng, sr, real_param=0.15).program(shard["depth"] + 1)
        else:
            g = Gen(rng, real_vars=0.15, mode=mode)
            P = g.real(shard["depth"], [(), (), (2,), (2, 3)][int(rng.integers(4))])
        run_case(P, shard, res, riders, memo, rng, n)


def routes_for(P, rng, n):
    """list of (label, thunk) ; thunk returns the evaluated funsor"""
    import funsor
    from funsor.interpretations import eager, lazy, memoize, moment_matching, normalize, reflect, sequential
    from funsor.interpreter import recursion_reinterpret, stack_reinterpret

    from ..build import build

    ctxs = {"lazy": lazy, "reflect": reflect, "normalize": normalize, "eager": eager, "sequential": sequential, "moment_matching": moment_matching}
    reint = {"reinterpret": funsor.reinterpret, "recursion_reinterpret": recursion_reinterpret, "stack_reinterpret": stack_reinterpret}
    out = []

    def deferred(cname, rname):
        def thunk():
            with ctxs[cname]:
                L = build(P)
            return reint[rname](L)
        return thunk

    for cname in ("lazy", "reflect", "normalize"):
        for rname in reint:
            out.append(("%s+%s" % (cname, rname), deferred(cname, rname)))

    def direct(cname):
        def thunk():
            with ctxs[cname]:
                return build(P)
        return thunk

    out.append(("sequential", direct("sequential")))
    out.append(("moment_matching", direct("moment_matching")))

    def memo_lazy(rname):
        def thunk():
            with lazy:
                with memoize():
                    L = build(P)
            with memoize():
                return reint[rname](L)
        return thunk

    out.append(("memoize(lazy)+reinterpret", memo_lazy("reinterpret")))
    out.append(("memoize(lazy)+stack_reinterpret", memo_lazy("stack_reinterpret")))

    def memo_eager():
        with memoize():
            return build(P)

    out.append(("memoize(eager)", memo_eager))
    # nested context managers: innermost decides; exact ones must agree after reinterpretation
    depth = 2 + (n % 2)
    chain = [NEST_KINDS[int(i)] for i in rng.integers(0, len(NEST_KINDS), size=depth)]

    def nested():
        import contextlib

        with contextlib.ExitStack() as st:
            for k in chain:
                st.enter_context(memoize() if k == "memoize" else ctxs[k])
            L = build(P)
        return funsor.reinterpret(L)

    out.append(("nested", nested))
    return out, chain


def run_case(P, shard, res, riders, memo, rng, n):
    import funsor
    from funsor.interpretations import lazy, memoize

    from ..build import build

    try:
        p_inputs, p_out = typecheck(P)
    except (IllTyped, Unsupported):
        res.count("discarded-illtyped")
        return
    if any(k.startswith("gauss") for k in kinds_in(P)):
        return
    riders.before(P)
    cfg = "tco%s-tc%s" % (shard["env"]["FUNSOR_USE_TCO"], shard["env"]["FUNSOR_TYPECHECK"])
    try:
        with np.errstate(all="ignore"):
            base = build(P)
        vb = compare(base, P, rng, max_points=64)
    except Exception as e:
        res.count("base:declined:%s" % type(e).__name__)
        base, vb = None, None
    if vb is not None:
        res.count("base:%s" % vb.status)
    routes, chain = routes_for(P, rng, n)
    done = 0
    pts = 0
    for label, thunk in routes:
        try:
            with np.errstate(all="ignore"):
                R = thunk()
        except Exception as e:
            res.count("route:%s:declined:%s" % (label, type(e).__name__))
            continue
        riders.hold(R)
        try:
            v = compare(R, P, rng, max_points=64)
        except Exception as e:
            res.count("harness:oracle-exception:%s" % type(e).__name__)
            v = Verdict("undecided", "oracle-exception", str(e))
        res.count("route:%s:%s" % (label, v.status))
        if v.status == "ok":
            done += 1
            pts = max(pts, v.points)
        elif v.status == "bad":
            if vb is not None and vb.status == "bad" and vb.kind == v.kind:
                res.count("route-bad-but-eager-equally-bad")  # C01's business; still reported below
            report(P, label, chain, thunk, v, res, rng, cfg)
        if base is not None and v.status != "bad" and R.output != base.output:
            res.violation("output-domain-differs@%s" % label.split("+")[0], "[%s %s] route result has output %s, direct eager build has %s | %s" % (
                label, cfg, R.output, base.output, show(P)[:300]), case={"P": P, "route": label})
    # memoized evaluation returns the identical object for repeated identical subexpressions
    try:
        with lazy:
            with memoize():
                A = build(P)
                B = build(P)
        with memoize() as cache:
            RA = funsor.reinterpret(A)
            RB = funsor.reinterpret(B)
            RC = build(P)
            RD = build(P)
        res.count("memo:identity-checked")
        # Tensor.align / output reshapes of ground tensors make a fresh array view per call; arrays are equal only when identical, so
        # two builds of such a program legitimately differ (same for the evaluated results)
        fresh_views = any(k in ("align",) for k in kinds_in(P))
        if fresh_views:
            res.count("memo:identity-skipped-fresh-array-views")
        elif A is not B:
            res.violation("memoize:not-identical", "two lazy builds of one program inside memoize() are different objects | %s" % show(P)[:300], case={"P": P})
        if not fresh_views and (RA is not RB or RC is not RD):
            res.violation("memoize:not-identical", "repeated memoized evaluation returned different objects | %s" % show(P)[:300], case={"P": P})
        # stale-id scenario: drop results and arrays created by evaluation, collect, evaluate again in the same cache
        del RA, RB, RC, RD
        gc.collect()
        with memoize(cache):
            RE = build(P)
        ve = compare(RE, P, rng, max_points=32)
        res.count("memo:reuse-after-gc:%s" % ve.status)
        if ve.status == "bad" and not (vb is not None and vb.status == "bad"):
            res.violation("memoize:stale-result", "evaluation in a reused memoize cache after gc is wrong: %s | %s" % (ve.detail, show(P)[:300]), case={"P": P})
    except Exception as e:
        res.count("memo:declined:%s" % type(e).__name__)
    for m in memo.drain():
        res.violation("memoize:wrong-hit", "%s | %s" % (m, show(P)[:300]), case={"P": P})
    nontriv = done >= 3 and pts >= 2
    res.case(key=digest((P, cfg)) if nontriv else None, nontrivial=nontriv,
             sample={"program": show(P)[:260], "config": cfg, "routes_ok": done, "nested_chain": chain} if nontriv else None)
    muts, rep = riders.after(None)
    for m in muts:
        res.violation("rider:mutation", "%s while evaluating %s" % (m, show(P)[:300]), case={"P": P})
    if rep:
        res.violation("rider:stack", "%s after %s" % (rep, show(P)[:300]), case={"P": P})


def report(P, label, chain, thunk, v, res, rng, cfg):
    from ..triage import localise

    t = localise(thunk, rng)
    if t.out_of_carrier and not t.culprits:
        res.count("skipped:out-of-carrier")
        return
    res.violation("%s@%s" % (v.kind, t.key), "[%s %s%s] %s: %s | program: %s | culprit: %s" % (
        label, cfg, " chain=%s" % chain if label == "nested" else "", v.kind, v.detail, show(P)[:400],
        "; ".join(t.descriptions)[:500] or "none among %d firings" % t.firings), case={"P": P, "route": label, "chain": chain})


def replay(rep, res):
    from ..common import dec
    from ..localise import retuple

    c = dec(rep["violation"]["case"])
    import funsor.interpreter as interpreter

    shard = {"env": {"FUNSOR_USE_TCO": str(interpreter._USE_TCO), "FUNSOR_TYPECHECK": str(interpreter._TYPECHECK)}}
    run_case(retuple(c["P"]), shard, res, Riders(res), MemoMonitor(res), shard_rng(0, ID, "replay"), 0)
