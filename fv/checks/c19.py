"""C19 Conversions and re-alignment never move data to the wrong name.

Oracle: arange-filled arrays; direct indexing of the original array at every named point.
"""
import itertools

import numpy as np

from ..common import close, shard_rng, short

ID = "C19"
LEVEL = "exploration"
RULE = ("(A) every array shape of rank 0-5 with sizes 1-4 (<=256 elements) x every event rank 0-2 x every subset of non-singleton "
        "batch dims named (and optionally singleton dims named too) x {real, bounded int} x {output given, output inferred}: "
        "to_funsor then to_data with the inverse map, and pointwise value at every named point; (B) align / permutation of up to "
        "4 inputs for Tensor, lazy Binary/Unary/Reduce terms, Contraction, Gaussian, Delta: every permutation, value at every point; "
        "(C) Tensor.materialize of variables, slices and lazy integer expressions. Non-trivial: at least one named dim of size>1 (A) or "
        ">=2 inputs permuted (B); distinct by the full case tuple")
ASSUMPTIONS = ["numpy indexing is the reference"]
EXHAUSTIVE = {"quick": False, "thorough": True}
MIN_NONTRIVIAL = {"quick": 1000, "thorough": 5000}
REQUIRED_COUNTERS = ["A:roundtrips", "A:points", "B:aligned", "C:materialized"]

NAMES = ["a", "b", "c", "d", "e"]


def all_shapes(max_rank, max_elems, sizes=(1, 2, 3, 4)):
    for r in range(0, max_rank + 1):
        for shp in itertools.product(sizes, repeat=r):
            if int(np.prod(shp, dtype=int)) <= max_elems:
                yield tuple(shp)


def plan(tier, seed):
    shapes = list(all_shapes(5 if tier == "thorough" else 4, 256 if tier == "thorough" else 64))
    n = 16 if tier == "quick" else 32
    shards = [{"name": "A-%d" % i, "part": "A", "shapes": [list(s) for s in shapes[i::n]], "timeout": 2400} for i in range(n)]
    for i in range(4 if tier == "quick" else 12):
        shards.append({"name": "B-%d" % i, "part": "B", "rep": i, "timeout": 2400})
    shards.append({"name": "C", "part": "C", "timeout": 1200})
    return shards


def run_shard(shard, res):
    rng = shard_rng(shard["seed"], ID, shard["name"])
    if shard["part"] == "A":
        for shp in shard["shapes"]:
            part_a(tuple(shp), res, rng)
    elif shard["part"] == "B":
        part_b(res, rng, shard["rep"])
    else:
        part_c(res, rng)


def part_a(shape, res, rng):
    import funsor
    from funsor.domains import Bint, Reals
    from funsor.tensor import Tensor

    rank = len(shape)
    for event_rank in range(0, min(2, rank) + 1):
        nb = rank - event_rank
        bshape = shape[:nb]
        eshape = shape[nb:]
        big = [d for d in range(nb) if bshape[d] > 1]
        ones = [d for d in range(nb) if bshape[d] == 1]
        # every non-singleton batch dim must be named; singleton dims may or may not be
        one_subsets = [()] + [tuple(ones)] if ones else [()]
        for named_ones in one_subsets:
            named = sorted(big + list(named_ones))
            for perm_i, names in enumerate(itertools.permutations(NAMES[: len(named)])):
                if perm_i >= 2:
                    break
                dim_to_name = {d - nb: n for d, n in zip(named, names)}
                for dtype in ("real", "int"):
                    size = int(np.prod(shape, dtype=int))
                    if dtype == "real":
                        x = np.arange(size, dtype=np.float64).reshape(shape)
                        np.add(x, 0.5, out=x)
                        out = Reals[eshape]
                    else:
                        x = np.arange(size, dtype=np.int64).reshape(shape)
                        np.mod(x, 7, out=x)
                        out = Bint[(7,) + eshape] if eshape else Bint[7]
                    x.flags.writeable = False
                    for give_output, extra_left in ((True, 0), (False, 0), (True, 1), (True, 2), (False, 1), (False, 2)):
                        if not give_output and dtype == "int":
                            continue
                        # a "global" map may name dims further left than the array has: those names simply do not occur in the result
                        call_map = dict(dim_to_name)
                        for e in range(extra_left):
                            call_map[-(nb + 1 + e)] = "xl%d" % e
                        if extra_left and (perm_i > 0 or (not give_output and event_rank > 0)):
                            continue
                        case = (shape, event_rank, tuple(sorted(call_map.items())), dtype, give_output)
                        nontriv = len(big) >= 1
                        if extra_left:
                            res.count("A:map-spans-more-dims-than-array")
                        try:
                            f = funsor.to_funsor(x, out if give_output else None, dict(call_map) if call_map else None)
                        except Exception as e:
                            res.count("A:declined:%s" % type(e).__name__)
                            res.case()
                            continue
                        if not give_output and call_map:
                            # inferred event shape: leftmost named dim is the leftmost batch dim of x
                            inferred_nb = min(-min(call_map), rank)
                            if inferred_nb != nb:
                                res.count("A:skipped-ambiguous-inference")
                                continue
                        if not give_output and not call_map and nb > 0:
                            continue
                        res.count("A:roundtrips")
                        msg = None
                        if not isinstance(f, Tensor):
                            msg = "to_funsor returned %s" % type(f).__name__
                        else:
                            want_inputs = {n: bshape[d] for d, n in zip(named, names) if bshape[d] > 1}
                            got_inputs = {k: v.size for k, v in f.inputs.items()}
                            if got_inputs != want_inputs:
                                msg = "inputs %s, expected %s" % (got_inputs, want_inputs)
                            elif tuple(f.output.shape) != eshape:
                                msg = "output shape %s, expected %s" % (f.output.shape, eshape)
                        if msg is None:
                            # pointwise: value at every named point
                            in_names = list(f.inputs)
                            name_dim = {n: d for d, n in zip(named, names)}
                            for pt in itertools.product(*[range(f.inputs[n].size) for n in in_names]):
                                idx = [0] * nb
                                for n, v in zip(in_names, pt):
                                    idx[name_dim[n]] = v
                                want = x[tuple(idx)]
                                got = f.data[tuple(pt)]
                                res.count("A:points")
                                if not np.array_equal(np.asarray(got), np.asarray(want)):
                                    msg = "value at %s is %s, the array holds %s" % (dict(zip(in_names, pt)), short(np.asarray(got).tolist()), short(np.asarray(want).tolist()))
                                    break
                        if msg is None and len(f.inputs) >= 2:
                            # the same funsor with its inputs permuted must convert back to the same array
                            name_to_dim0 = {n: d for d, n in dim_to_name.items() if n in f.inputs}
                            k0 = -min(name_to_dim0.values())
                            want0 = x.reshape(tuple(bshape[nb - k0:]) + eshape)
                            for perm in itertools.permutations(list(f.inputs)):
                                try:
                                    y2 = np.asarray(funsor.to_data(f.align(tuple(perm)), name_to_dim0))
                                except Exception as e:
                                    msg = "to_data of the re-aligned funsor raised %s" % type(e).__name__
                                    break
                                res.count("A:permuted-roundtrips")
                                if y2.shape != want0.shape or not np.array_equal(y2, want0):
                                    msg = "round trip through inputs order %s changed the data" % (perm,)
                                    break
                        if msg is None:
                            name_to_dim = {n: d for d, n in dim_to_name.items() if n in f.inputs}
                            try:
                                y = funsor.to_data(f, name_to_dim if name_to_dim else None)
                            except Exception as e:
                                msg = "to_data raised %s: %s" % (type(e).__name__, e)
                            else:
                                y = np.asarray(y)
                                k = -min(name_to_dim.values()) if name_to_dim else 0
                                want_shape = tuple(bshape[nb - k:]) + eshape if k else eshape
                                lead = bshape[: nb - k]
                                if any(s != 1 for s in lead):
                                    msg = "harness: leading dims not singleton"
                                elif y.shape != want_shape:
                                    msg = "round trip shape %s, expected %s" % (y.shape, want_shape)
                                elif not np.array_equal(y, x.reshape(want_shape)):
                                    msg = "round trip changed the data"
                        res.case(key=str(case), nontrivial=nontriv, sample={"part": "A", "shape": list(shape), "event_rank": event_rank, "dim_to_name": {str(k): v for k, v in dim_to_name.items()}, "dtype": dtype, "output_given": give_output})
                        if msg:
                            res.violation("conversion:" + ("roundtrip" if "round trip" in msg or "to_data" in msg else "to_funsor"),
                                          "%s | shape=%s event_rank=%d dim_to_name=%s dtype=%s output_given=%s" % (msg, shape, event_rank, dim_to_name, dtype, give_output), case=case)


def _points(inputs, rng, limit=64):
    names = list(inputs)
    spaces = []
    for n in names:
        d = inputs[n]
        if d.dtype == "real":
            spaces.append([np.round(rng.uniform(-1, 1, size=d.shape), 2) for _ in range(2)])
        else:
            spaces.append(list(range(d.size)))
    pts = list(itertools.product(*spaces))
    if len(pts) > limit:
        idx = rng.choice(len(pts), size=limit, replace=False)
        pts = [pts[i] for i in idx]
    return [dict(zip(names, p)) for p in pts]


def _value(f, env):
    from ..oracle import value_at

    return value_at(f, env)[0]


def part_b(res, rng, rep):
    from collections import OrderedDict

    import funsor
    from funsor import ops
    from funsor.cnf import Contraction
    from funsor.delta import Delta
    from funsor.domains import Bint, Real, Reals
    from funsor.gaussian import Gaussian
    from funsor.interpretations import lazy, reflect
    from funsor.tensor import Tensor
    from funsor.terms import Number, Variable

    sizes = {"a": 2, "b": 3, "c": 2, "d": 4}

    def T(names, eshape=()):
        shp = tuple(sizes[n] for n in names) + eshape
        return Tensor(np.arange(int(np.prod(shp, dtype=int)), dtype=np.float64).reshape(shp) * 0.5 + rep, OrderedDict((n, Bint[sizes[n]]) for n in names))

    subjects = []
    for k in range(1, 5):
        for names in itertools.permutations("abcd", k):
            if k == 4 and names[0] > "b":
                continue
            for eshape in [(), (2,)]:
                subjects.append(("Tensor", T(names, eshape)))
    x = Variable("x", Real)
    with lazy:
        subjects.append(("lazy-Binary", T("ab") * x + T("bc")))
        subjects.append(("lazy-Unary", (T("abc") + x).exp()))
        subjects.append(("lazy-Reduce", (T("abcd") * x).reduce(ops.add, "d")))
    subjects.append(("Contraction", T("ab") * x + T("ca")))
    subjects.append(("Contraction3", (T("abc") * x).reduce(ops.add, "c") + T("b")))
    for rank in (1, 2, 3):
        w = np.round(rng.uniform(-1, 1, size=(2, 3, rank)), 2)
        P = np.round(rng.uniform(-1, 1, size=(2, 3, 3, rank)), 2)
        subjects.append(("Gaussian", Gaussian(white_vec=w, prec_sqrt=P, inputs=OrderedDict(a=Bint[2], y=Reals[2], b=Bint[3], z=Real))))
    subjects.append(("Delta", Delta("v", T("ab"), T("b"))))
    subjects.append(("Delta2", Delta("v", T("ab", (2,)), T("a"))))
    for label, f in subjects:
        names = list(f.inputs)
        perms = list(itertools.permutations(names))
        if len(perms) > 24:
            perms = perms[:24]
        pts = _points(f.inputs, rng, 48)
        try:
            base = [_value(f, env) for env in pts]
        except Exception as e:
            res.count("B:undecided-base:%s:%s:%s" % (label, type(e).__name__, str(e)[:60]))
            continue
        for perm in perms:
            for prefix in range(1, len(perm) + 1):
                target = tuple(perm[:prefix])
                if prefix not in (len(perm), 1, 2):
                    continue
                case = (label, tuple(names), target)
                try:
                    g = f.align(target)
                except Exception as e:
                    res.count("B:declined:%s" % type(e).__name__)
                    res.case()
                    continue
                res.count("B:aligned")
                msg = None
                # the documented contract of .align on lazy terms takes *all* names; a partial list is honoured by Tensor only
                full = len(target) == len(names) or label == "Tensor"
                if full and tuple(g.inputs)[: len(target)] != target:
                    msg = "aligned inputs start with %s, requested %s" % (tuple(g.inputs)[: len(target)], target)
                elif {k: str(v) for k, v in g.inputs.items()} != {k: str(v) for k, v in f.inputs.items()} or g.output != f.output:
                    msg = "align changed the type: %s -> %s" % (dict(f.inputs), dict(g.inputs))
                else:
                    try:
                        for env, want in zip(pts, base):
                            got = _value(g, env)
                            res.count("B:points")
                            if not close(got, want):
                                msg = "value at %s changed from %s to %s" % (short(env), short(np.asarray(want).tolist()), short(np.asarray(got).tolist()))
                                break
                    except Exception as e:
                        res.count("B:undecided:%s:%s" % (label, type(e).__name__))
                        continue
                res.case(key=str((label, tuple(names), target, rep)), nontrivial=len(names) >= 2,
                         sample={"part": "B", "term": label, "inputs": names, "align": list(target)})
                if msg:
                    res.violation("align:" + label.rstrip("0123456789"), "%s | %s inputs=%s align=%s" % (msg, label, names, target), case=case)


def part_c(res, rng):
    from collections import OrderedDict

    from funsor import ops
    from funsor.domains import Bint
    from funsor.interpretations import lazy
    from funsor.tensor import Tensor
    from funsor.terms import Number, Slice, Stack, Variable

    proto = Tensor(np.zeros(()))
    subjects = []
    for n in (1, 2, 3, 4):
        subjects.append(("Variable", Variable("i", Bint[n])))
        for start in range(n):
            for stop in range(start + 1, n + 1):
                for step in (1, 2, 3):
                    subjects.append(("Slice", Slice("s", start, stop, step, n)))
    idx = Tensor(np.array([[0, 2, 1], [1, 1, 0]]), OrderedDict(a=Bint[2], b=Bint[3]), 3)
    subjects.append(("Tensor", idx))
    subjects.append(("Number", Number(2, 3)))
    with lazy:
        subjects.append(("lazy-Subs", idx(a=Variable("i", Bint[2]))))
        subjects.append(("lazy-Stack", Stack("s", (idx, idx(a=1)))))
        subjects.append(("lazy-Binary", Variable("i", Bint[2]) * Variable("j", Bint[3])))
        subjects.append(("lazy-Binary-equal-sizes", Variable("i", Bint[3]) * Number(3, 4) + Variable("j", Bint[3])))
        subjects.append(("lazy-Binary-three", (Variable("i", Bint[2]) * Number(2, 3) + Variable("j", Bint[2])) * Number(2, 3) + Variable("k", Bint[2])))
        subjects.append(("lazy-getitem", Tensor(np.arange(6).reshape(2, 3), OrderedDict(), 6)[Variable("i", Bint[2])]))
    for label, x in subjects:
        case = (label, str(x)[:80])
        try:
            m = proto.materialize(x)
        except Exception as e:
            res.count("C:declined:%s" % type(e).__name__)
            res.case()
            continue
        res.count("C:materialized")
        msg = None
        if not isinstance(m, (Tensor, Number)):
            res.count("C:still-lazy")
            res.case()
            continue
        if {k: str(v) for k, v in m.inputs.items()} != {k: str(v) for k, v in x.inputs.items()} or m.output != x.output:
            msg = "materialize changed the type %s:%s -> %s:%s" % (dict(x.inputs), x.output, dict(m.inputs), m.output)
        else:
            for env in _points(x.inputs, rng, 64):
                try:
                    want = _value(x, env)
                except Exception:
                    res.count("C:undecided")
                    break
                got = _value(m, env)
                if not close(got, want):
                    msg = "materialize changed the value at %s from %s to %s" % (env, want, got)
                    break
        res.case(key=str(case), nontrivial=True, sample={"part": "C", "term": label, "repr": str(x)[:80]})
        if msg:
            res.violation("materialize:" + label, "%s | %s" % (msg, str(x)[:100]), case=case)
