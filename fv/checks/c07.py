"""C07 Hash-consing: structural equality is object identity, held weakly.

Oracle: shadow identity model keyed by the harness's own structural key (recipe, array identity tokens), updated by the same
history of construct / drop / gc / pickle / reinterpret / re-allocate actions; weakref liveness; intern-table sizes at quiescent points.
"""
import gc
import itertools
import pickle
import weakref

import numpy as np

from ..common import digest, shard_rng

ID = "C07"
LEVEL = "exploration"
RULE = ("histories over a pool of 12 term recipes (leaves, lazy binary/unary/reduce/subs/stack/lambda/contraction terms sharing 4 backing "
        "arrays), 6 domain recipes, 6 parametrised-op recipes and 3 parametrised-type recipes with actions {construct under reflect / lazy / "
        "eager (rule-free recipes), drop, gc, pickle round trip, reinterpret under reflect, re-allocate a backing array}: exhaustive for "
        "all histories of length <=3 (quick) / <=4 (thorough) over a reduced alphabet, random histories of length 300 with periodic full "
        "audits. A case is one history; non-trivial when it contains >=2 constructions of one key or a drop+gc+reconstruct; distinct by the action sequence")
ASSUMPTIONS = ["hashable constructor arguments are equal when ==; arrays are equal when identical", "CPython reference counting + gc.collect() reclaims unreachable terms"]
MIN_NONTRIVIAL = {"quick": 1500, "thorough": 15000}
REQUIRED_COUNTERS = ["identity-checks", "distinctness-checks", "weakref-dead-checks", "intern-table-audits", "pickle-checks", "stale-field-checks", "used-op-weak-checks", "hash-collision-checks", "keyword-checks"]

INTERPS = ("reflect", "lazy", "eager")


class World:
    def __init__(self, res, rng):
        self.res = res
        self.rng = rng
        self.arrays = {}
        self.version = {}
        for k, shape in (("A0", (2,)), ("A1", (2, 3)), ("A2", (2,)), ("A3", ()), ("A4", (2,)), ("A5", (2,)), ("A6", (2, 3)), ("A7", (2,))):
            self.realloc(k, shape)
        self.handles = {}      # handle id -> [obj or None, key, weakref]
        self.next = 0
        self.errors = []
        self.stats = {"constructs": 0}

    def realloc(self, k, shape=None):
        shape = self.arrays[k].shape if shape is None else shape
        if k == "A4":
            self.arrays[k] = np.array(self.rng.integers(0, 2, size=shape))
        elif k == "A5":  # a column of a matrix: a non-contiguous view
            self.arrays[k] = np.array(np.round(self.rng.uniform(-1, 1, size=shape + (3,)), 2))[:, 1]
        elif k == "A6":  # a transposed matrix: Fortran-ordered view
            self.arrays[k] = np.array(np.round(self.rng.uniform(-1, 1, size=shape[::-1]), 2)).T
        elif k == "A7":  # a strided view
            self.arrays[k] = np.array(np.round(self.rng.uniform(-1, 1, size=(2 * shape[0],)), 2))[::2]
        else:
            self.arrays[k] = np.array(np.round(self.rng.uniform(-1, 1, size=shape), 2))  # a real ndarray even for shape ()
        self.version[k] = self.version.get(k, 0) + 1

    # ---- recipes -------------------------------------------------------
    def recipes(self):
        from collections import OrderedDict

        import funsor.terms as T
        from funsor import ops
        from funsor.cnf import Contraction
        from funsor.domains import Bint, Real, Reals
        from funsor.tensor import Tensor
        from funsor.terms import Lambda, Number, Stack, Variable

        A = self.arrays

        def t0(name="i"):
            return Tensor(A["A0"], OrderedDict([(name, Bint[2])]))

        x = lambda: Variable("x", Real)
        return {
            # name: (builder, arrays used, interpretations under which the very same object is expected, has arrays)
            "var-x": (lambda: Variable("x_alone", Real), (), INTERPS),
            "var-i": (lambda: Variable("i", Bint[3]), (), INTERPS),
            "number": (lambda: Number(1.5), (), INTERPS),
            "tensor-A0-i": (lambda: t0("i"), ("A0",), INTERPS),
            "tensor-A0-j": (lambda: t0("j"), ("A0",), INTERPS),
            "tensor-A1": (lambda: Tensor(A["A1"], OrderedDict(a=Bint[2], b=Bint[3])), ("A1",), INTERPS),
            "tensor-A3": (lambda: Tensor(A["A3"]), ("A3",), INTERPS),
            "tensor-A5-column-view": (lambda: Tensor(A["A5"], OrderedDict(i=Bint[2])), ("A5",), INTERPS),
            "tensor-A6-transposed-view": (lambda: Tensor(A["A6"], OrderedDict(a=Bint[2], b=Bint[3])), ("A6",), INTERPS),
            "tensor-A7-strided-view": (lambda: Tensor(A["A7"], OrderedDict(i=Bint[2])), ("A7",), INTERPS),
            "binary-A5-view": (lambda: T.Binary(ops.mul, Tensor(A["A5"], OrderedDict(jb=Bint[2])), x()), ("A5",), ("reflect", "lazy")),
            "binary": (lambda: T.Binary(ops.mul, t0("jb"), x()), ("A0",), ("reflect", "lazy")),
            "unary": (lambda: T.Unary(ops.exp, x()), (), ("reflect", "lazy")),
            "reduce": (lambda: T.Reduce(ops.add, T.Binary(ops.mul, Tensor(A["A2"], OrderedDict(k=Bint[2])), x()), frozenset([Variable("k", Bint[2])])), ("A2",), ("reflect", "lazy")),
            "subs": (lambda: T.Subs(T.Binary(ops.add, Tensor(A["A2"], OrderedDict(m=Bint[2])), x()), (("m", Variable("n", Bint[2])),)), ("A2",), ("reflect",)),
            "stack": (lambda: Stack("s", (T.Binary(ops.add, Tensor(A["A2"], OrderedDict(p=Bint[2])), x()), Variable("y", Real))), ("A2",), ("reflect", "lazy")),
            "lambda": (lambda: Lambda(Variable("q", Bint[2]), T.Binary(ops.mul, Tensor(A["A0"], OrderedDict(q=Bint[2])), x())), ("A0",), ("reflect", "lazy")),
            "contraction": (lambda: Contraction(ops.add, ops.mul, frozenset([Variable("r", Bint[2])]), Tensor(A["A0"], OrderedDict(r=Bint[2])), x()), ("A0",), ("reflect", "lazy")),
            # near misses: each differs from a recipe above in exactly one constructor argument
            "var-i-other-domain": (lambda: Variable("i", Bint[4]), (), INTERPS),
            "number-other-dtype": (lambda: Number(1, 3), (), INTERPS),
            "number-other-dtype2": (lambda: Number(1, 4), (), INTERPS),
            "tensor-A4-dtype2": (lambda: Tensor(A["A4"], OrderedDict(i=Bint[2]), 2), ("A4",), INTERPS),
            "tensor-A4-dtype3": (lambda: Tensor(A["A4"], OrderedDict(i=Bint[2]), 3), ("A4",), INTERPS),
            "binary-other-rhs": (lambda: T.Binary(ops.mul, t0("jb"), Variable("y", Real)), ("A0",), ("reflect", "lazy")),
            "binary-other-op": (lambda: T.Binary(ops.add, t0("jb"), x()), ("A0",), ("reflect", "lazy")),
            "binary-swapped": (lambda: T.Binary(ops.mul, x(), t0("jb")), ("A0",), ("reflect", "lazy")),
            "unary-other-op": (lambda: T.Unary(ops.neg, x()), (), ("reflect", "lazy")),
            "unary-param-op": (lambda: T.Unary(ops.SumOp(0, False), Variable("w", Reals[2, 3])), (), ("reflect", "lazy")),
            "unary-param-op2": (lambda: T.Unary(ops.SumOp(1, False), Variable("w", Reals[2, 3])), (), ("reflect", "lazy")),
            "reduce-other-op": (lambda: T.Reduce(ops.logaddexp, T.Binary(ops.mul, Tensor(A["A2"], OrderedDict(k=Bint[2])), x()), frozenset([Variable("k", Bint[2])])), ("A2",), ("reflect", "lazy")),
            "reduce-2-vars": (lambda: T.Reduce(ops.add, T.Binary(ops.mul, Tensor(A["A1"], OrderedDict(k=Bint[2], k2=Bint[3])), x()), frozenset([Variable("k", Bint[2]), Variable("k2", Bint[3])])), ("A1",), ("reflect", "lazy")),
            "reduce-1-of-2-vars": (lambda: T.Reduce(ops.add, T.Binary(ops.mul, Tensor(A["A1"], OrderedDict(k=Bint[2], k2=Bint[3])), x()), frozenset([Variable("k", Bint[2])])), ("A1",), ("reflect", "lazy")),
            "subs-other-value": (lambda: T.Subs(T.Binary(ops.add, Tensor(A["A2"], OrderedDict(m=Bint[2])), x()), (("m", Variable("n2", Bint[2])),)), ("A2",), ("reflect",)),
            "stack-other-name": (lambda: Stack("s2", (T.Binary(ops.add, Tensor(A["A2"], OrderedDict(p=Bint[2])), x()), Variable("y", Real))), ("A2",), ("reflect", "lazy")),
            "contraction-other-red": (lambda: Contraction(ops.logaddexp, ops.add, frozenset([Variable("r", Bint[2])]), Tensor(A["A0"], OrderedDict(r=Bint[2])), x()), ("A0",), ("reflect", "lazy")),
            "contraction-other-bin": (lambda: Contraction(ops.add, ops.add, frozenset([Variable("r", Bint[2])]), Tensor(A["A0"], OrderedDict(r=Bint[2])), x()), ("A0",), ("reflect", "lazy")),
            "contraction-no-vars": (lambda: Contraction(ops.null, ops.mul, frozenset(), Tensor(A["A0"], OrderedDict(r=Bint[2])), x()), ("A0",), ("reflect", "lazy")),
        }

    def key(self, name):
        r = self.recipes()[name]
        return (name,) + tuple((a, self.version[a]) for a in r[1])

    def ctx(self, interp):
        from funsor.interpretations import eager, lazy, reflect

        return {"reflect": reflect, "lazy": lazy, "eager": eager}[interp]

    def err(self, key, msg):
        self.errors.append((key, msg))

    # ---- actions ---------------------------------------------------------
    def construct(self, name, interp):
        builder, arrs, same = self.recipes()[name]
        if interp not in same:
            interp = "reflect"
        try:
            with self.ctx(interp):
                obj = builder()
        except Exception as e:
            self.res.count("construct-declined:%s" % type(e).__name__)
            return None
        self.stats["constructs"] += 1
        key = self.key(name)
        for h, (o2, k2, w2) in self.handles.items():
            if o2 is None:
                continue
            if k2 == key:
                self.res.count("identity-checks")
                if o2 is not obj:
                    self.err("identity:equal-args-different-objects", "%s built under %s is a different object from the live one built earlier from equal arguments" % (name, interp))
            else:
                self.res.count("distinctness-checks")
                if o2 is obj:
                    self.err("identity:different-args-same-object", "%s (key %s) is the same object as a live term with key %s" % (name, key, k2))
        # the object's fields are the requested arguments (no stale entry after array re-allocation)
        self.res.count("stale-field-checks")
        for a in arrs:
            if not self._holds_array(obj, self.arrays[a]):
                self.err("identity:stale-object", "%s was requested with the current array %s but the returned object does not hold it" % (name, a))
        h = self.next
        self.next += 1
        self.handles[h] = [obj, key, weakref.ref(obj)]
        return h

    @staticmethod
    def _holds_array(obj, arr, depth=0):
        from funsor.terms import Funsor

        data = getattr(obj, "data", None)
        if data is arr:
            return True
        if isinstance(obj, Funsor) and depth < 6:
            for c in obj._ast_values:
                if isinstance(c, Funsor) and World._holds_array(c, arr, depth + 1):
                    return True
                if isinstance(c, (tuple, frozenset)):
                    for cc in c:
                        if isinstance(cc, Funsor) and World._holds_array(cc, arr, depth + 1):
                            return True
                        if isinstance(cc, tuple):
                            for ccc in cc:
                                if isinstance(ccc, Funsor) and World._holds_array(ccc, arr, depth + 1):
                                    return True
        return False

    def live(self):
        return [h for h, v in self.handles.items() if v[0] is not None]

    def drop(self, h):
        if h in self.handles:
            self.handles[h][0] = None

    def collect(self):
        for _ in range(3):
            gc.collect()
        live_keys = {v[1] for v in self.handles.values() if v[0] is not None}
        for h, (o, k, w) in list(self.handles.items()):
            if o is None:
                if k not in live_keys:
                    self.res.count("weakref-dead-checks")
                    if w() is not None:
                        self.err("weak:dropped-term-still-alive", "a dropped %s is still alive after gc although no live handle has its key (the intern table holds it strongly?)" % k[0])
                del self.handles[h]

    def pickle(self, h):
        from funsor.interpretations import reflect

        o, k, w = self.handles[h]
        if o is None:
            return
        try:
            with reflect:
                o2 = pickle.loads(pickle.dumps(o))
                o3 = pickle.loads(pickle.dumps(o))
        except Exception as e:
            self.res.count("pickle-declined:%s" % type(e).__name__)
            return
        self.res.count("pickle-checks")
        arrs = self.recipes()[k[0]][1]
        if not arrs:
            if o2 is not o:
                self.err("identity:pickle-array-free", "pickle round trip of the array-free term %s under reflect returned a different object" % k[0])
        else:
            if o2 is o:
                self.err("identity:pickle-with-arrays", "pickle round trip of %s returned the same object although its arrays were copied" % k[0])
            if type(o2) is not type(o) or dict(o2.inputs) != dict(o.inputs) or o2.output != o.output:
                self.err("identity:pickle-changed-term", "pickle round trip changed the type of %s" % k[0])

    def reinterpret(self, h):
        import funsor
        from funsor.interpretations import reflect

        o, k, w = self.handles[h]
        if o is None:
            return
        with reflect:
            o2 = funsor.reinterpret(o)
            o3 = funsor.reinterpret(o)
        self.res.count("identity-checks")
        if o2 is not o or o3 is not o:
            self.err("identity:reinterpret-under-reflect", "reinterpreting %s under reflect returned a different object" % k[0])

    def audit(self, baseline):
        """quiescent point: drop everything, collect, intern tables back to their baseline sizes"""
        for h in list(self.handles):
            self.drop(h)
        self.collect()
        sizes = table_sizes()
        self.res.count("intern-table-audits")
        for name, n in sizes.items():
            if n > baseline.get(name, 0):
                self.err("weak:intern-table-grew", "intern table %s holds %d entries after every handle was dropped and collected (baseline %d)" % (name, n, baseline.get(name, 0)))


def table_sizes():
    import funsor.terms as T
    from funsor.cnf import Contraction
    from funsor.domains import ArrayType
    from funsor.tensor import Tensor

    out = {}
    for cls in (T.Variable, T.Number, Tensor, T.Binary, T.Unary, T.Reduce, T.Subs, T.Stack, T.Lambda, Contraction):
        out[cls.__name__] = len(cls._cons_cache)
    out["ArrayType._type_cache"] = len(ArrayType._type_cache)
    return out


def domain_and_op_checks(res, rng, errors):
    """domains, parametrised ops and parametrised term types are interned, survive pickling, and are held weakly"""
    import funsor.terms as T
    from funsor import ops
    from funsor.domains import ArrayType, Bint, Product, Reals
    from funsor.tensor import Tensor

    def same(label, make, picklable=True):
        a, b = make(), make()
        res.count("identity-checks")
        if a is not b:
            errors.append(("identity:%s" % label.split(":")[0], "%s constructed twice gives different objects" % label))
        if picklable:
            try:
                c = pickle.loads(pickle.dumps(a))
                res.count("pickle-checks")
                if c is not a:
                    errors.append(("identity:pickle-%s" % label.split(":")[0], "pickle round trip of %s returned a different object" % label))
            except Exception as e:
                res.count("pickle-declined:%s" % type(e).__name__)
        return a

    n = int(rng.integers(5, 9))
    same("domain:Reals[%d,3]" % n, lambda: Reals[n, 3])
    same("domain:Bint[%d]" % n, lambda: Bint[n])
    same("domain:Bint[%d,2]" % n, lambda: Bint[n, 2])
    same("domain:Real", lambda: Reals[()])
    same("domain:Product", lambda: Product[Reals[n], Bint[2]])
    res.count("distinctness-checks", 3)
    if Reals[n, 3] is Reals[3, n] or Bint[n] is Bint[n + 1] or Reals[n] is Bint[n]:
        errors.append(("identity:domain-distinct", "different domains are the same object"))
    same("op:SumOp(1,True)", lambda: ops.SumOp(1, True))
    same("op:SumOp(1,keepdims=True)", lambda: ops.SumOp(1, keepdims=True))
    same("op:GetitemOp(%d)" % n, lambda: ops.GetitemOp(n))
    same("op:ReshapeOp", lambda: ops.ReshapeOp((n, 2)))
    same("op:ReshapeOp-list", lambda: ops.ReshapeOp([n, 2]), picklable=False)
    same("op:LogsumexpOp", lambda: ops.LogsumexpOp((0, 1), False))
    res.count("identity-checks", 4)
    if ops.SumOp(1, True) is not ops.SumOp(axis=1, keepdims=True) or ops.SumOp() is not ops.sum or ops.GetitemOp(0) is not ops.getitem or ops.ReshapeOp((n, 2)) is not ops.ReshapeOp([n, 2]):
        errors.append(("identity:op-equal-args", "ops built from equal arguments (positional/keyword/default) are different objects"))
    res.count("distinctness-checks", 3)
    if ops.SumOp(1, True) is ops.SumOp(1, False) or ops.SumOp(0, True) is ops.SumOp(1, True) or ops.GetitemOp(1) is ops.GetitemOp(2):
        errors.append(("identity:op-distinct", "ops with different parameters are the same object"))
    # parameters whose python hashes collide (hash(-1) == hash(-2), hash(0) == hash(2**61-1), hash(inf) == hash(314159)): an intern
    # table keyed by the hash instead of the arguments would conflate them while both are alive
    colliding = [
        ("SumOp(-1)/SumOp(-2)", lambda: ops.SumOp(-1, False), lambda: ops.SumOp(-2, False)),
        ("AmaxOp((-1,))/AmaxOp((-2,))", lambda: ops.AmaxOp((-1,), True), lambda: ops.AmaxOp((-2,), True)),
        ("LogsumexpOp(-1)/(-2)", lambda: ops.LogsumexpOp(-1, False), lambda: ops.LogsumexpOp(-2, False)),
        ("UnsqueezeOp(-1)/(-2)", lambda: ops.UnsqueezeOp(-1), lambda: ops.UnsqueezeOp(-2)),
        ("ArgmaxOp(-1)/(-2)", lambda: ops.ArgmaxOp(-1, False), lambda: ops.ArgmaxOp(-2, False)),
        ("GetitemOp(0)/GetitemOp(2**61-1)", lambda: ops.GetitemOp(0), lambda: ops.GetitemOp(2 ** 61 - 1)),
        ("ReshapeOp((-1,2))/((-2,2))", lambda: ops.ReshapeOp((-1, 2)), lambda: ops.ReshapeOp((-2, 2))),
        ("Number(-1)/Number(-2)", lambda: T.Number(-1), lambda: T.Number(-2)),
        ("Number(-1.0)/Number(-2.0)", lambda: T.Number(-1.0), lambda: T.Number(-2.0)),
        ("Number(0,n)/Number(2**61-1,2**62)", lambda: T.Number(0, 2 ** 62), lambda: T.Number(2 ** 61 - 1, 2 ** 62)),
        ("Slice(stop=-1+..)", lambda: T.Slice("s", 0, 5, 1, 7), lambda: T.Slice("s", 0, 5, 2, 7)),
        ("Variable(Reals[..])", lambda: T.Variable("v", Reals[n, 2]), lambda: T.Variable("v", Reals[2, n])),
    ]
    for label, mk1, mk2 in colliding:
        try:
            a, b = mk1(), mk2()          # both alive
            a2, b2 = mk1(), mk2()
        except Exception as e:
            res.count("colliding-declined:%s" % type(e).__name__)
            continue
        res.count("distinctness-checks")
        res.count("hash-collision-checks")
        if a is b:
            errors.append(("identity:hash-colliding-args-same-object", "%s: arguments with equal python hashes but different values give the same object" % label))
        if a2 is not a or b2 is not b:
            errors.append(("identity:hash-colliding-args-not-interned", "%s: rebuilding while both are alive gives different objects" % label))
        del a, b, a2, b2
    # keyword construction: the same arguments given by keyword, in any order, denote the same term as positional construction
    from funsor.interpretations import reflect as _reflect
    from funsor.domains import Real

    xa, xb = T.Variable("ka", Real), T.Variable("kb", Reals[2])
    kv = T.Variable("kk", Bint[n])
    keyword_forms = [
        ("Binary(rhs=, lhs=)", T.Binary, (ops.sub, xa, T.Variable("kc", Real)), ("op", "lhs", "rhs")),
        ("Binary(getitem; rhs=, lhs=)", T.Binary, (ops.getitem, xb, T.Variable("ki", Bint[2])), ("op", "lhs", "rhs")),
        ("Unary(arg=, op=)", T.Unary, (ops.exp, xa), ("op", "arg")),
        ("Reduce(reduced_vars=, arg=, op=)", T.Reduce, (ops.add, T.Binary(ops.mul, xa, kv), frozenset([kv])), ("op", "arg", "reduced_vars")),
        ("Variable(output=, name=)", T.Variable, ("kname", Reals[n]), ("name", "output")),
        ("Stack(parts=, name=)", T.Stack, ("ks", (xa, T.Variable("kc", Real))), ("name", "parts")),
        ("Lambda(expr=, var=)", T.Lambda, (kv, T.Binary(ops.mul, xa, kv)), ("var", "expr")),
        ("Independent(...)", T.Independent, (T.Binary(ops.add, T.Variable("kr_kk", Real), kv), "kr", "kk", "kr_kk"), ("fn", "reals_var", "bint_var", "diag_var")),
    ]
    with _reflect:
        for label, cls, args, fields in keyword_forms:
            try:
                pos = cls(*args)
                forms = []
                k = len(fields)
                # all keywords reversed; first argument positional and the rest reversed; all keywords in order
                forms.append(cls(**dict(reversed(list(zip(fields, args))))))
                forms.append(cls(args[0], **dict(reversed(list(zip(fields[1:], args[1:]))))))
                forms.append(cls(**dict(zip(fields, args))))
            except Exception as e:
                res.count("keyword-declined:%s:%s" % (label.split("(")[0], type(e).__name__))
                errors.append(("identity:keyword-construction-raised", "%s raised %s although positional construction succeeds" % (label, type(e).__name__)))
                continue
            res.count("identity-checks", len(forms))
            res.count("keyword-checks")
            if any(f is not pos for f in forms):
                errors.append(("identity:keyword-args-different-object", "%s built with keyword arguments (some order) is not the object built positionally from the same arguments" % label))
            del pos, forms
    same("type:Reduce[...]", lambda: T.Reduce[ops.AddOp, Tensor, frozenset], picklable=False)
    same("type:Binary[...]", lambda: T.Binary[ops.MulOp, Tensor, T.Variable], picklable=False)
    res.count("distinctness-checks")
    if T.Binary[ops.MulOp, Tensor, T.Variable] is T.Binary[ops.AddOp, Tensor, T.Variable]:
        errors.append(("identity:type-distinct", "differently parametrised term types are the same object"))
    # weakness of the domain and op caches
    k0 = len(ArrayType._type_cache)
    i0 = len(type(ops.sum)._instance_cache)
    d = Reals[n, 11, 13]
    o = ops.SumOp(-3, True)
    wd, wo = weakref.ref(d), weakref.ref(o)
    del d, o
    for _ in range(3):
        gc.collect()
    res.count("weakref-dead-checks", 2)
    if wd() is not None or len(ArrayType._type_cache) > k0:
        errors.append(("weak:domain-cache", "a dropped domain is still interned after gc"))
    if wo() is not None or len(type(ops.sum)._instance_cache) > i0:
        errors.append(("weak:op-cache", "a dropped parametrised op is still interned after gc"))


def used_op_checks(res, rng, errors):
    """parametrised ops and domains stay weakly held after they have been USED: type inference (find_domain), lazy terms built from
    them, eager evaluation on tensors and on raw arrays; the intern tables and any rule-level caches must not keep them alive"""
    from collections import OrderedDict

    import funsor.terms as T
    from funsor import ops
    from funsor.domains import ArrayType, Bint, Reals, find_domain
    from funsor.interpretations import eager, lazy
    from funsor.tensor import Tensor

    n = int(rng.integers(5, 9))
    m = int(rng.integers(14, 40))          # sizes no other part of the harness uses, so nothing else holds these domains
    data = np.round(rng.uniform(-1, 1, size=(2, m, n)), 2)
    start, stop, step = int(rng.integers(0, 3)), int(rng.integers(6, m)), int(rng.integers(1, 4))
    makers = {
        "GetsliceOp": lambda: ops.GetsliceOp((slice(start, stop, step),)),
        "GetsliceOp-ellipsis": lambda: ops.GetsliceOp((Ellipsis, slice(0, n - 1, 2))),
        "ReshapeOp": lambda: ops.ReshapeOp((n, m)),
        "SumOp": lambda: ops.SumOp(-2, True),
        "LogsumexpOp": lambda: ops.LogsumexpOp((0,), True),
        "AmaxOp": lambda: ops.AmaxOp(1, False),
        "MeanOp": lambda: ops.MeanOp(0, True),
        "StdOp": lambda: ops.StdOp(0, 1, False),
        "ArgmaxOp": lambda: ops.ArgmaxOp(-1, True),
        "PermuteOp": lambda: ops.PermuteOp((1, 0)),
        "ExpandOp": lambda: ops.ExpandOp((3, m, n)),
        "UnsqueezeOp": lambda: ops.UnsqueezeOp(-2),
        "SqueezeOp-after": None,
    }
    uses = ("find_domain", "lazy-term", "eager-tensor", "raw-array", "lazy-then-eager")
    for name, mk in makers.items():
        if mk is None:
            continue
        for use in uses:
            i_ops = {c: len(c._instance_cache) for c in (type(mk()),)}
            k0 = len(ArrayType._type_cache)
            try:
                op = mk()
                dom = Reals[m, n]
                if use == "find_domain":
                    out = find_domain(op, dom)
                    out2 = find_domain(op, dom)
                elif use == "lazy-term":
                    with lazy:
                        out = op(T.Variable("v%d" % m, dom))
                        out2 = out.output
                elif use == "eager-tensor":
                    with eager:
                        out = op(Tensor(data, OrderedDict(b=Bint[2])))
                        out2 = None
                elif use == "raw-array":
                    out = op(data[0])
                    out2 = None
                else:
                    with lazy:
                        out = op(T.Variable("v%d" % m, dom))
                    with eager:
                        out2 = out(**{"v%d" % m: Tensor(data, OrderedDict(b=Bint[2]))})
            except Exception as e:
                res.count("used-op-declined:%s:%s" % (name, type(e).__name__))
                continue
            wo, wd = weakref.ref(op), weakref.ref(dom)
            del op, dom, out, out2
            for _ in range(3):
                gc.collect()
            res.count("weakref-dead-checks", 2)
            res.count("used-op-weak-checks")
            if wo() is not None:
                errors.append(("weak:used-op-still-alive", "a dropped %s instance is still alive after it was used for %s (a cache holds it strongly)" % (name.split("-")[0], use)))
            if wd() is not None or len(ArrayType._type_cache) > k0:
                errors.append(("weak:used-domain-still-alive", "a dropped domain is still alive after it was used with %s for %s" % (name.split("-")[0], use)))


def plan(tier, seed):
    shards = []
    n = 8 if tier == "quick" else 24
    for i in range(n):
        shards.append({"name": "exhaustive-%d" % i, "kind": "exhaustive", "index": i, "of": n, "length": 3 if tier == "quick" else 4, "timeout": 3000})
    nr = 8 if tier == "quick" else 40
    for i in range(nr):
        shards.append({"name": "random-%d" % i, "kind": "random", "n": 6 if tier == "quick" else 20, "length": 300, "timeout": 3000})
    return shards


ALPHABET_RECIPES = ["tensor-A0-i", "binary", "binary-other-rhs", "reduce", "tensor-A5-column-view"]


def actions_alphabet():
    acts = []
    for r in ALPHABET_RECIPES:
        for interp in ("reflect", "lazy", "eager"):
            acts.append(("construct", r, interp))
    acts += [("drop-oldest",), ("drop-newest",), ("gc",), ("pickle-newest",), ("reinterpret-newest",), ("realloc", "A0")]
    return acts


def apply_action(w, act):
    if act[0] == "construct":
        w.construct(act[1], act[2])
    elif act[0] == "drop-oldest":
        live = w.live()
        if live:
            w.drop(live[0])
    elif act[0] == "drop-newest":
        live = w.live()
        if live:
            w.drop(live[-1])
    elif act[0] == "drop-random":
        live = w.live()
        if live:
            w.drop(live[int(w.rng.integers(len(live)))])
    elif act[0] == "gc":
        w.collect()
    elif act[0] == "pickle-newest":
        live = w.live()
        if live:
            w.pickle(live[-1])
    elif act[0] == "reinterpret-newest":
        live = w.live()
        if live:
            w.reinterpret(live[-1])
    elif act[0] == "realloc":
        # drop every handle that uses the array, then allocate a new one (its id may be recycled)
        for h in [h for h, v in w.handles.items() if any(a == act[1] for a, ver in v[1][1:])]:
            w.drop(h)
        w.collect()
        w.realloc(act[1])


def run_history(acts, res, rng, baseline, label):
    w = World(res, rng)
    for a in acts:
        apply_action(w, a)
    w.audit(baseline)
    constructs = [a for a in acts if a[0] == "construct"]
    keys = [a[1] for a in constructs]
    nontriv = len(keys) != len(set(keys)) or (any(a[0] in ("gc", "realloc") for a in acts) and len(constructs) >= 2)
    res.case(key=digest([list(a) for a in acts]) if nontriv else None, nontrivial=nontriv,
             sample={"history": [" ".join(map(str, a)) for a in acts[:12]], "kind": label} if nontriv else None)
    for key, msg in w.errors:
        res.violation(key, "%s | history: %s" % (msg, [" ".join(map(str, a)) for a in acts[-12:]]), case={"history": [list(a) for a in acts]})


def run_shard(shard, res):
    rng = shard_rng(shard["seed"], ID, shard["name"])
    # warm-up then baseline of the intern tables
    w0 = World(res, rng)
    for name in w0.recipes():
        w0.construct(name, "reflect")
    w0.audit({k: 10 ** 9 for k in table_sizes()})
    baseline = table_sizes()
    errors = []
    domain_and_op_checks(res, rng, errors)
    used_op_checks(res, rng, errors)
    for key, msg in errors:
        res.violation(key, msg)
    if shard["kind"] == "exhaustive":
        acts = actions_alphabet()
        n = 0
        for L in range(1, shard["length"] + 1):
            for hist in itertools.product(acts, repeat=L):
                n += 1
                if n % shard["of"] != shard["index"]:
                    continue
                if not any(a[0] == "construct" for a in hist):
                    continue
                run_history(list(hist), res, rng, baseline, "exhaustive")
        return
    names = list(w0.recipes())
    for _ in range(shard["n"]):
        acts = []
        for _i in range(shard["length"]):
            r = rng.random()
            if r < 0.5:
                acts.append(("construct", names[int(rng.integers(len(names)))], INTERPS[int(rng.integers(3))]))
            elif r < 0.68:
                acts.append(("drop-random",))
            elif r < 0.76:
                acts.append(("gc",))
            elif r < 0.84:
                acts.append(("pickle-newest",))
            elif r < 0.92:
                acts.append(("reinterpret-newest",))
            else:
                acts.append(("realloc", "A%d" % int(rng.integers(0, 8))))
        run_history(acts, res, rng, baseline, "random")


def replay(rep, res):
    from ..common import dec

    c = dec(rep["violation"]["case"])
    rng = shard_rng(0, ID, "replay")
    w0 = World(res, rng)
    for name in w0.recipes():
        w0.construct(name, "reflect")
    w0.audit({k: 10 ** 9 for k in table_sizes()})
    run_history([tuple(a) for a in c["history"]], res, rng, table_sizes(), "replay")
