"""C12 Gaussian pointwise algebra agrees with the dense quadratic form.

Oracle: -1/2 x'Px + x'eta + c with (P, eta, c) derived from the generator's parameters (fv/dense.py), composed through python
closures that mirror each operation's textbook meaning.
"""
from collections import OrderedDict

import numpy as np

from ..common import close, digest, shard_rng, short
from ..dense import random_gaussian, random_inputs, random_point
from ..monitors import Riders

ID = "C12"
LEVEL = "exploration"
RULE = ("Gaussians with 1-3 real inputs of shapes ()..(2,2), 0-2 batch inputs of sizes 1-3, any interleaving, every (mean|info_vec|white_vec) x "
        "(precision|covariance|scale_tril|prec_sqrt) parametrisation, ranks 0..2*dim+1 with structural deficiency; operations composed to "
        "depth 3 from {add, partial/total real substitution (plain and batched), int indexing, slicing, renaming, affine substitution, "
        "align, compress_gaussians / compression thresholds, Cat along a batch input (also of mixtures)}; the result is read structurally "
        "and also bound with funsor at 4 random points. A case is (parametrisation, rank class, input signature, operation sequence); "
        "non-trivial when >=1 operation applied and compared; distinct by that tuple plus data hash")
ASSUMPTIONS = ["fv/dense.py closed forms and numpy linear algebra", "well-conditioned factors (singular values in [0.5,2]); comparison at rtol 1e-5"]
MIN_NONTRIVIAL = {"quick": 4000, "thorough": 40000}
REQUIRED_COUNTERS = ["construct:ok", "op:add:ok", "op:subs_real:ok", "op:subs_int:ok", "op:slice:ok", "op:rename:ok", "op:affine:ok", "op:align:ok",
                     "op:compress:ok", "op:cat:ok"]


class Node:
    def __init__(self, fun, ref, inputs, desc):
        self.fun = fun            # funsor
        self.ref = ref            # env -> float
        self.inputs = inputs      # OrderedDict name -> dom
        self.desc = desc


def plan(tier, seed):
    n = 16 if tier == "quick" else 64
    return [{"name": "gauss-%d" % i, "n": 500 if tier == "quick" else 2000, "timeout": 3000} for i in range(n)]


def value_of(R, env):
    """structural evaluation (lift + reference) of a funsor at a point"""
    from ..oracle import value_at

    return value_at(R, env, allow_bind=False)[0]


def bound_value(R, env):
    from ..build import bind_value
    from ..lift import dom_of

    G = R(**{k: bind_value(dom_of(d), env[k]) for k, d in R.inputs.items()})
    return float(np.asarray(G.data))


def check_node(node, res, rng, label, case, npoints=4):
    """returns True if compared ok"""
    from ..ir import Unsupported
    from ..lift import dom_of

    R = node.fun
    got_inputs = {k: dom_of(d) for k, d in R.inputs.items()}
    extra = [k for k in got_inputs if k not in node.inputs]
    if extra or any(got_inputs[k] != node.inputs[k] for k in got_inputs):
        res.violation("gaussian:%s:inputs" % label, "result inputs %s, expected within %s | %s" % (got_inputs, dict(node.inputs), node.desc), case=case)
        return False
    ok = True
    for _ in range(npoints):
        env = random_point(rng, node.inputs)
        want = node.ref(env)
        try:
            got = value_of(R, env)
            how = "structural"
        except Unsupported:
            try:
                got = bound_value(R, env)
                how = "bound"
            except Exception as e:
                res.count("undecided:%s:%s" % (label, type(e).__name__))
                return False
        except Exception as e:
            res.count("undecided:%s:%s" % (label, type(e).__name__))
            return False
        res.count("points-compared")
        if not close(got, want, rtol=1e-5, atol=1e-7):
            res.violation("gaussian:%s" % label, "%s evaluation at %s gives %s, dense quadratic form gives %s | %s" % (
                how, short({k: (v.tolist() if isinstance(v, np.ndarray) else v) for k, v in env.items()}, 200), got, want, node.desc), case=case)
            return False
        if how == "structural":
            try:
                gb = bound_value(R, env)
                if not close(gb, want, rtol=1e-5, atol=1e-7):
                    res.violation("gaussian:%s:bind" % label, "binding all inputs at %s gives %s, dense quadratic form gives %s | %s" % (
                        short({k: (v.tolist() if isinstance(v, np.ndarray) else v) for k, v in env.items()}, 200), gb, want, node.desc), case=case)
                    return False
            except Exception as e:
                res.count("bind-declined:%s" % type(e).__name__)
    return ok


def apply_random_op(node, rng, res):
    """returns (label, new Node) or None"""
    import funsor
    from funsor.domains import Bint, Real, Reals
    from funsor.gaussian import Gaussian
    from funsor.interpretations import compress_gaussians
    from funsor.tensor import Tensor
    from funsor.terms import Cat, Slice, Variable

    from ..build import to_domain

    reals = [k for k, d in node.inputs.items() if d[0] == "real"]
    ints = [k for k, d in node.inputs.items() if d[0] != "real"]
    ops_avail = ["add", "add_other", "subs_real", "subs_real_batched", "rename", "align", "compress", "affine"]
    if len(reals) >= 2:
        ops_avail += ["subs_real_multi", "subs_real_multi"]
    if ints:
        ops_avail += ["subs_int", "slice", "cat", "subs_int_tensor"]
    else:
        ops_avail += ["cat_new"]
    op = str(rng.choice(ops_avail))
    f, ref, inputs = node.fun, node.ref, node.inputs
    if op in ("add", "add_other"):
        if op == "add":
            sub = OrderedDict((k, d) for k, d in inputs.items() if rng.random() < 0.7 and not (d[0] == "real" and False))
            if not any(d[0] == "real" for d in sub.values()):
                k0 = reals[0] if reals else None
                if k0 is None:
                    return None
                sub[k0] = inputs[k0]
            if rng.random() < 0.6:
                # the same names listed in another order (same set of inputs when nothing was dropped)
                ks = list(sub)
                sub = OrderedDict((ks[i], sub[ks[i]]) for i in rng.permutation(len(ks)))
        else:
            sub = random_inputs(rng, 2, 1, names_real=("u", "v"), names_int=("i", "m"))
            for k, d in list(sub.items()):
                if k in inputs and inputs[k] != d:
                    sub[k] = inputs[k]
        spec = random_gaussian(rng, sub)
        g2 = spec.build()
        new_inputs = OrderedDict(inputs)
        for k, d in spec.inputs.items():
            new_inputs.setdefault(k, d)
        order_swap = rng.random() < 0.5
        return "add", Node(g2 + f if order_swap else f + g2, lambda env: ref(env) + spec.dense(env), new_inputs, node.desc + " + G[%s]" % spec.label)
    if op == "subs_real" and reals:
        k = str(rng.choice(reals))
        v = np.round(rng.uniform(-1.5, 1.5, size=inputs[k][1]), 2)
        new_inputs = OrderedDict((n, d) for n, d in inputs.items() if n != k)
        return "subs_real", Node(f(**{k: Tensor(v)}), lambda env: ref({**env, k: v}), new_inputs, node.desc + " (%s=const)" % k)
    if op == "subs_real_multi" and len(reals) >= 2:
        from funsor.terms import Subs

        n = int(rng.integers(2, len(reals) + 1)) if (len(reals) == 2 or rng.random() < 0.3) else int(rng.integers(2, len(reals)))
        ks = [str(k) for k in rng.choice(reals, size=n, replace=False)]     # random order, generally not the Gaussian's input order
        vals = {k: np.round(rng.uniform(-1.5, 1.5, size=inputs[k][1]), 2) for k in ks}
        new_inputs = OrderedDict((nm, d) for nm, d in inputs.items() if nm not in vals)
        how = int(rng.integers(3))
        if how == 0:
            g = Subs(f, tuple((k, Tensor(vals[k])) for k in ks))
        elif how == 1:
            g = f(**{k: Tensor(vals[k]) for k in ks})
        else:
            # the map arrives through an enclosing lazy term whose inputs are ordered differently
            with funsor.interpretations.lazy:
                outer = sum((Variable(k, to_domain(inputs[k])).sum() if inputs[k][1] else Variable(k, to_domain(inputs[k])) for k in ks), 0.0) * 0.0 + f
            g = outer(**{k: Tensor(vals[k]) for k in ks})
            g = funsor.reinterpret(g)
        return "subs_real", Node(g, lambda env: ref({**env, **vals}), new_inputs, node.desc + " (%s=consts via %s)" % (",".join(ks), ["Subs", "call", "enclosing-lazy"][how]))
    if op == "subs_real_batched" and reals:
        k = str(rng.choice(reals))
        bname = str(rng.choice(ints + ["b"])) if ints else "b"
        bsize = inputs[bname][0] if bname in inputs else 2
        v = np.round(rng.uniform(-1.5, 1.5, size=(bsize,) + inputs[k][1]), 2)
        new_inputs = OrderedDict((n, d) for n, d in inputs.items() if n != k)
        new_inputs.setdefault(bname, (bsize, ()))
        return "subs_real", Node(f(**{k: Tensor(v, OrderedDict([(bname, Bint[bsize])]))}), lambda env: ref({**env, k: v[int(env[bname])]}), new_inputs,
                                 node.desc + " (%s=batched over %s)" % (k, bname))
    if op == "subs_int" and ints:
        k = str(rng.choice(ints))
        idx = int(rng.integers(inputs[k][0]))
        new_inputs = OrderedDict((n, d) for n, d in inputs.items() if n != k)
        return "subs_int", Node(f(**{k: idx}), lambda env: ref({**env, k: idx}), new_inputs, node.desc + " (%s=%d)" % (k, idx))
    if op == "subs_int_tensor" and ints:
        k = str(rng.choice(ints))
        size = inputs[k][0]
        other = next(n for n in ("q", "q2", "q3", "q4", "q5") if n not in inputs)   # a fresh name: an earlier step may have left (and grown) a `q`
        table = rng.integers(0, size, size=(3,))
        new_inputs = OrderedDict((n, d) for n, d in inputs.items() if n != k)
        new_inputs[other] = (3, ())
        return "subs_int", Node(f(**{k: Tensor(table, OrderedDict([(other, Bint[3])]), size)}), lambda env: ref({**env, k: int(table[int(env[other])])}), new_inputs,
                                node.desc + " (%s=index tensor over q)" % k)
    if op == "slice" and ints:
        k = str(rng.choice(ints))
        size = inputs[k][0]
        start = int(rng.integers(0, size))
        stop = int(rng.integers(start + 1, size + 1))
        step = int(rng.integers(1, 3))
        sname = str(rng.choice([k, "s"]))
        if sname != k and sname in inputs:
            return None
        n = len(range(start, stop, step))
        new_inputs = OrderedDict((nm if nm != k else sname, d if nm != k else (n, ())) for nm, d in inputs.items())
        return "slice", Node(f(**{k: Slice(sname, start, stop, step, size)}), lambda env: ref({**{a: b for a, b in env.items() if a != sname or sname == k}, k: start + step * int(env[sname])}),
                             new_inputs, node.desc + " (%s=Slice[%s](%d:%d:%d))" % (k, sname, start, stop, step))
    if op == "rename":
        k = str(rng.choice(list(inputs)))
        new = k + "r"
        if new in inputs:
            return None
        new_inputs = OrderedDict((new if n == k else n, d) for n, d in inputs.items())
        return "rename", Node(f(**{k: new}), lambda env: ref({**{a: b for a, b in env.items() if a != new}, k: env[new]}), new_inputs, node.desc + " (%s->%s)" % (k, new))
    if op == "align":
        names = list(inputs)
        perm = [names[i] for i in rng.permutation(len(names))]
        return "align", Node(f.align(tuple(perm)), ref, inputs, node.desc + " .align(%s)" % ",".join(perm))
    if op == "compress":
        mode = int(rng.integers(3))
        if mode == 0:
            with compress_gaussians:
                g = funsor.reinterpret(f)
        elif mode == 1:
            with Gaussian.set_compression_threshold(1):
                g = funsor.reinterpret(f)
        else:
            with Gaussian.set_compression_threshold(1):
                with compress_gaussians:
                    g = funsor.reinterpret(f)
        return "compress", Node(g, ref, inputs, node.desc + " .compress[%d]" % mode)
    if op == "affine" and reals:
        k = str(rng.choice(reals))
        shape = inputs[k][1]
        c = np.round(rng.uniform(-1, 1, size=shape), 2)
        a = float(np.round(rng.uniform(0.5, 2.0), 2)) * (1 if rng.random() < 0.7 else -1)
        kind = int(rng.integers(4))
        if kind == 0:
            uname = "w"
            if uname in inputs:
                return None
            val = Variable(uname, Reals[shape]) * a + Tensor(c)
            new_inputs = OrderedDict((n, d) for n, d in inputs.items() if n != k)
            new_inputs[uname] = ("real", shape)
            return "affine", Node(f(**{k: val}), lambda env: ref({**{x: y for x, y in env.items() if x != uname}, k: a * np.asarray(env[uname]) + c}), new_inputs, node.desc + " (%s=%g*w+c)" % (k, a))
        if kind == 1:
            # the value mentions the substituted name itself
            val = Variable(k, Reals[shape]) * a + Tensor(c)
            return "affine", Node(f(**{k: val}), lambda env: ref({**env, k: a * np.asarray(env[k]) + c}), inputs, node.desc + " (%s=%g*%s+c)" % (k, a, k))
        if kind == 2 and shape == ():
            if "w" in inputs or "w2" in inputs:
                return None
            b2 = float(np.round(rng.uniform(-1, 1), 2))
            val = Variable("w", Real) * a + Variable("w2", Real) * b2 + float(c)
            new_inputs = OrderedDict((n, d) for n, d in inputs.items() if n != k)
            new_inputs["w"] = ("real", ())
            new_inputs["w2"] = ("real", ())
            return "affine", Node(f(**{k: val}), lambda env: ref({**{x: y for x, y in env.items() if x not in ("w", "w2")}, k: a * float(env["w"]) + b2 * float(env["w2"]) + float(c)}),
                                  new_inputs, node.desc + " (%s=%g*w+%g*w2+c)" % (k, a, b2))
        # affine in another existing real input of the same shape
        others = [r for r in reals if r != k and inputs[r][1] == shape]
        if not others:
            return None
        o = str(rng.choice(others))
        val = Variable(o, Reals[shape]) * a + Tensor(c)
        new_inputs = OrderedDict((n, d) for n, d in inputs.items() if n != k)
        return "affine", Node(f(**{k: val}), lambda env: ref({**env, k: a * np.asarray(env[o]) + c}), new_inputs, node.desc + " (%s=%g*%s+c)" % (k, a, o))
    if op in ("cat", "cat_new"):
        if op == "cat" and ints:
            k = str(rng.choice(ints))
        else:
            return None
        size = inputs[k][0]
        # second part: a fresh Gaussian with the same inputs but its own size along k (optionally a mixture = Gaussian + Tensor)
        size2 = int(rng.integers(1, 3))
        in2 = OrderedDict((n, (size2, ()) if n == k else d) for n, d in inputs.items())
        spec = random_gaussian(rng, in2)
        g2 = spec.build()
        ref2 = spec.dense
        if rng.random() < 0.5:
            tnames = [n for n in ints if rng.random() < 0.7] or [k]
            tshape = tuple(in2[n][0] for n in tnames)
            tdata = np.round(rng.uniform(-1, 1, size=tshape), 2)
            g2 = g2 + Tensor(tdata, OrderedDict((n, Bint[in2[n][0]]) for n in tnames))
            ref2 = (lambda d=spec.dense, tdata=tdata, tnames=tnames: (lambda env: d(env) + float(tdata[tuple(int(env[n]) for n in tnames)])))()
        # the concatenated name is the parts' own name, or a new one (part_name != name)
        cname = k if rng.random() < 0.5 or (k + "c") in inputs else k + "c"
        new_inputs = OrderedDict((cname if n == k else n, (size + size2, ()) if n == k else d) for n, d in inputs.items())

        def cref(env, ref=ref, ref2=ref2, size=size, k=k, cname=cname):
            i = int(env[cname])
            rest = {a: b for a, b in env.items() if a != cname}
            return ref({**rest, k: i}) if i < size else ref2({**rest, k: i - size})

        if cname != k:
            return "cat", Node(Cat(cname, (f, g2), k), cref, new_inputs, node.desc + " Cat[%s<-%s](., G[%s])" % (cname, k, spec.label))
        return "cat", Node(Cat(k, (f, g2)), cref, new_inputs, node.desc + " Cat[%s](., G[%s])" % (k, spec.label))
    return None


def run_shard(shard, res):
    rng = shard_rng(shard["seed"], ID, shard["name"])
    riders = Riders(res)
    for _ in range(shard["n"]):
        run_case(rng, res, riders)


def run_case(rng, res, riders):
    spec = random_gaussian(rng)
    riders.before(list(spec.kwargs.values()))
    case = {"label": spec.label, "inputs": {k: list(map(str, v)) for k, v in spec.inputs.items()}, "kwargs": spec.kwargs}
    sig = tuple((k, d) for k, d in spec.inputs.items())
    try:
        with np.errstate(all="ignore"):
            g = spec.build()
    except Exception as e:
        res.count("construct:declined:%s" % type(e).__name__)
        res.case()
        return
    riders.hold(g)
    node = Node(g, spec.dense, OrderedDict(spec.inputs), "G[%s; %s]" % (spec.label, ",".join("%s:%s" % (k, "R%s" % list(d[1]) if d[0] == "real" else "b%d" % d[0]) for k, d in spec.inputs.items())))
    ok = check_node(node, res, rng, "construct", case)
    res.count("construct:%s" % ("ok" if ok else "not-ok"))
    res.count("param:" + spec.label.split()[0])
    applied = []
    if ok:
        depth = int(rng.integers(1, 4))
        for _d in range(depth):
            try:
                with np.errstate(all="ignore"):
                    out = apply_random_op(node, rng, res)
            except Exception as e:
                res.count("op:declined:%s" % type(e).__name__)
                import traceback

                tb = traceback.extract_tb(e.__traceback__)
                mine = [t for t in tb if t.filename.endswith("c12.py")]
                res.observe("op-declined-at", "%s:%s line %d: %s" % (type(e).__name__, tb[-1].name, mine[-1].lineno if mine else -1, str(e)[:80]))
                break
            if out is None:
                continue
            label, node2 = out
            riders.hold(node2.fun)
            case2 = dict(case, ops=applied + [label], desc=node2.desc)
            ok2 = check_node(node2, res, rng, label, case2)
            res.count("op:%s:%s" % (label, "ok" if ok2 else "not-ok"))
            if not ok2:
                break
            applied.append(label)
            node = node2
    rank_class = "deficient" if spec.rank < spec.dense.dim else "square" if spec.rank == spec.dense.dim else "wide"
    res.count("rank:" + rank_class)
    nontriv = ok and len(applied) >= 1
    res.case(key=digest((spec.label, sig, tuple(applied), list(spec.kwargs.values())[0])) if nontriv else None, nontrivial=nontriv,
             sample={"gaussian": node.desc[:300], "ops": applied, "rank_class": rank_class} if nontriv else None)
    muts, rep = riders.after(None)
    for m in muts:
        res.violation("rider:mutation", "%s | %s" % (m, node.desc[:300]), case=case)
    if rep:
        res.violation("rider:stack", rep, case=case)


def workload(rng, n):
    for _ in range(n):
        spec = random_gaussian(rng)

        def thunk(spec=spec, seed=int(rng.integers(1 << 30))):
            r = np.random.default_rng(seed)
            g = spec.build()
            node = Node(g, spec.dense, OrderedDict(spec.inputs), spec.label)
            for _ in range(2):
                out = apply_random_op(node, r, None)
                if out is not None:
                    node = out[1]
            return node.fun

        yield "gaussian-ops", list(spec.kwargs.values()), thunk
