"""C04 Substitution is simultaneous, capture-avoiding function application.

Oracle: reference `Sub` semantics (values evaluated in the caller's environment, all at once) at every point.
Workload: E2 catalogue of subjects x systematic value classes per input (singles exhaustive, pairs, triples), foreign keys,
chained substitutions; routes eager / lazy / reflect / normalize (+ reinterpretation) and eager with an explicit ordered Subs.
"""
import itertools

import numpy as np

from ..common import digest, shard_rng, short
from ..gen import e2
from ..ir import IllTyped, Unsupported, show, typecheck
from ..monitors import Riders
from ..oracle import Verdict, compare

ID = "C04"
LEVEL = "exploration"
RULE = ("subjects f from a catalogue (tensors of 1-3 inputs, lazy binary/unary/reduce terms, Stack, Cat, Slice, Lambda, Contraction, "
        "Independent, Gaussian, Delta, lazy getitem) x maps from f's inputs into value classes {number, fresh/colliding/self variable, "
        "every slice, index tensors over nothing / a fresh name / an input of f / the substituted name itself, lazy integer "
        "expressions, real tensors, affine real expressions}: every single-input map, products for pairs, sampled or full products "
        "for triples, keys that are not inputs, chained f(a)(b); routes eager, reflect, lazy, normalize (each also reinterpreted) and Subs(f, pairs) with the pairs in the given (permuted) order; each decided at every point of the integer input space. "
        "Non-trivial: well-typed, funsor returned, >=2 points compared; distinct by (subject, map) hash")
ASSUMPTIONS = ["fv/refsem.py Sub semantics is the reference", "ill-typed maps (one name with two domains) are discarded by the independent typechecker"]
MIN_NONTRIVIAL = {"quick": 1500, "thorough": 10000}
REQUIRED_COUNTERS = ["route:eager:ok", "route:reflect:ok", "route:lazy:ok", "route:normalize:ok", "route:eager-ordered:ok", "chained:ok"]

ROUTES = ("eager", "reflect", "lazy", "normalize", "eager-ordered")


def plan(tier, seed):
    n = 16 if tier == "quick" else 48
    return [{"name": "subs-%d" % i, "index": i, "of": n, "timeout": 3000} for i in range(n)]


def run_shard(shard, res):
    rng = shard_rng(shard["seed"], ID, "subjects")  # same subjects in every shard; shards split the case list
    tier = shard["tier"]
    subs = e2.subjects(rng)
    rng2 = shard_rng(shard["seed"], ID, shard["name"])
    riders = Riders(res)
    counter = 0
    for label, f in subs:
        try:
            f_inputs, f_out = typecheck(f)
        except (IllTyped, Unsupported):
            continue
        names = list(f_inputs)
        classes = {n: e2.value_classes(rng2, n, f_inputs[n], f_inputs) for n in names}
        cases = []
        # singles: every class value
        for n in names:
            for lab, v in classes[n]:
                cases.append((((n, lab, v),), "single"))
        # foreign key alone and together with a real key
        cases.append(((("zz", "foreign", ("num", 0, 2)),), "foreign"))
        if names:
            n0 = names[0]
            for lab, v in classes[n0][:3]:
                cases.append((((n0, lab, v), ("zz", "foreign", ("var", names[-1], f_inputs[names[-1]]))), "foreign"))
        # pairs
        thinned = {n: e2.thin(classes[n], rng2, 2 if tier == "thorough" else 1) for n in names}
        for a, b in itertools.combinations(names, 2):
            for (la, va), (lb, vb) in itertools.product(thinned[a], thinned[b]):
                cases.append((((a, la, va), (b, lb, vb)), "pair"))
                if rng2.random() < (0.5 if f_inputs[a][0] == "real" and f_inputs[b][0] == "real" else 0.15):
                    cases.append((((b, lb, vb), (a, la, va)), "pair-reordered"))
        # triples
        if len(names) >= 3:
            t1 = {n: e2.thin(classes[n], rng2, 1) for n in names}
            trip = list(itertools.product(*[t1[n] for n in names[:3]]))
            if tier == "quick" and len(trip) > 300:
                idx = rng2.choice(len(trip), size=300, replace=False)
                trip = [trip[i] for i in idx]
            for combo in trip:
                c3 = [(n, lab, v) for n, (lab, v) in zip(names[:3], combo)]
                if rng2.random() < 0.5:
                    c3 = [c3[i] for i in rng2.permutation(3)]
                cases.append((tuple(c3), "triple"))
            # pairs / triples among the real inputs in every order (the order of an explicit Subs map must not matter)
            reals = [n for n in names if f_inputs[n][0] == "real"]
            if len(reals) >= 3:
                for k in (2, 3):
                    for perm in itertools.permutations(reals, k):
                        for _ in range(2):
                            cases.append((tuple((n,) + thinned[n][int(rng2.integers(len(thinned[n])))] for n in perm), "real-permutation"))
        for case, kind in cases:
            counter += 1
            if counter % shard["of"] != shard["index"]:
                continue
            run_case(label, f, case, kind, res, riders, rng2)
        # chained substitutions
        for _ in range(40 if tier == "quick" else 200):
            counter += 1
            if counter % shard["of"] != shard["index"]:
                continue
            run_chained(label, f, f_inputs, classes, res, riders, rng2)


def build_route(route, S):
    import funsor
    from funsor.interpretations import lazy, reflect

    from funsor.interpretations import normalize

    from ..build import build, explicit_subs

    if route == "eager":
        return build(S), None
    if route == "eager-ordered":
        with explicit_subs():
            return build(S), None
    if route == "normalize":
        with normalize:
            L = build(S)
        return L, funsor.reinterpret(L)
    if route == "reflect":
        with reflect:
            L = build(S)
        return L, funsor.reinterpret(L)
    with lazy:
        L = build(S)
    return L, funsor.reinterpret(L)


def run_case(label, f, case, kind, res, riders, rng):
    subs = tuple((n, v) for n, lab, v in case)
    S = ("sub", f, subs)
    labs = tuple("%s=%s" % (n, lab) for n, lab, v in case)
    try:
        s_inputs, s_out = typecheck(S)
    except (IllTyped, Unsupported):
        res.count("discarded-illtyped")
        return
    riders.before(S)
    any_ok = False
    pts = 0
    for route in ROUTES:
        try:
            with np.errstate(all="ignore"):
                R, R2 = build_route(route, S)
        except Exception as e:
            res.count("route:%s:declined:%s" % (route, type(e).__name__))
            continue
        riders.hold(R)
        for which, T in (("", R), ("+reinterpret", R2)):
            if T is None:
                continue
            try:
                v = compare(T, S, rng, max_points=128, exact_inputs=(route == "reflect" and which == ""))
            except Exception as e:
                res.count("harness:oracle-exception:%s" % type(e).__name__)
                v = Verdict("undecided", "oracle-exception", str(e))
            res.count("route:%s%s:%s" % (route, which, v.status))
            if v.status == "ok":
                any_ok = True
                pts = max(pts, v.points)
            elif v.status == "bad":
                report(label, S, labs, route + which, v, res, rng)
    res.case(key=digest((label, S)) if any_ok and pts >= 2 else None, nontrivial=any_ok and pts >= 2,
             sample={"subject": label, "map": list(labs), "kind": kind, "program": show(S)[:240]} if any_ok else None)
    res.count("kind:" + kind)
    for n, lab, v in case:
        res.count("class:" + lab)
    after_case(S, res, riders)


def run_chained(label, f, f_inputs, classes, res, riders, rng):
    from ..build import build

    names = list(f_inputs)
    if not names:
        return
    n1 = names[int(rng.integers(len(names)))]
    lab1, v1 = classes[n1][int(rng.integers(len(classes[n1])))]
    A = ("sub", f, ((n1, v1),))
    try:
        a_inputs, _ = typecheck(A)
    except (IllTyped, Unsupported):
        res.count("discarded-illtyped")
        return
    if not a_inputs:
        return
    anames = list(a_inputs)
    n2 = anames[int(rng.integers(len(anames)))]
    cls2 = e2.value_classes(rng, n2, a_inputs[n2], a_inputs)
    if not cls2:
        return
    lab2, v2 = cls2[int(rng.integers(len(cls2)))]
    S = ("sub", A, ((n2, v2),))
    try:
        typecheck(S)
    except (IllTyped, Unsupported):
        res.count("discarded-illtyped")
        return
    riders.before(S)
    labs = ("%s=%s" % (n1, lab1), "then %s=%s" % (n2, lab2))
    ok = False
    for route in ("eager", "lazy", "normalize"):
        try:
            with np.errstate(all="ignore"):
                R, R2 = build_route(route, S)
        except Exception as e:
            res.count("chained:declined:%s" % type(e).__name__)
            continue
        T = R2 if R2 is not None else R
        try:
            v = compare(T, S, rng, max_points=128)
        except Exception as e:
            res.count("harness:oracle-exception:%s" % type(e).__name__)
            continue
        res.count("chained:" + v.status)
        if v.status == "ok":
            ok = True
        if v.status == "bad":
            report(label, S, labs, "chained-" + route, v, res, rng)
    res.case(key=digest((label, S)) if ok else None, nontrivial=ok, sample={"subject": label, "chained": list(labs), "program": show(S)[:240]} if ok else None)
    after_case(S, res, riders)


def report(label, S, labs, route, v, res, rng):
    from ..triage import localise

    base_route = route.split("+")[0].replace("chained-", "")

    def rerun():
        R, R2 = build_route(base_route if base_route in ROUTES else "eager", S)

    t = localise(rerun, rng)
    if t.out_of_carrier and not t.culprits:
        res.count("skipped:out-of-carrier")
        return
    res.violation("%s@%s" % (v.kind, t.key), "[%s] %s: %s | subject=%s map=%s | program: %s | culprit: %s" % (
        route, v.kind, v.detail, label, list(labs), show(S)[:400], "; ".join(t.descriptions)[:500] or "none among %d firings" % t.firings),
        case={"S": S, "route": route, "label": label})


def after_case(S, res, riders):
    muts, rep = riders.after(None)
    for m in muts:
        res.violation("rider:mutation", "%s while evaluating %s" % (m, show(S)[:300]), case={"S": S})
    if rep:
        res.violation("rider:stack", "%s after %s" % (rep, show(S)[:300]), case={"S": S})


def replay(rep, res):
    from ..common import dec
    from ..localise import retuple

    c = dec(rep["violation"]["case"])
    S = retuple(c["S"])
    rng = shard_rng(0, ID, "replay")
    run_case(c.get("label", "replay"), S[1], tuple((n, "replay", v) for n, v in S[2]), "replay", res, Riders(res), rng)
