"""C16 Pattern dispatch picks a most specific rule, deterministically.

Monitor: wrapper on PartialDispatcher.partial_call records every (dispatcher, argument types) used while the engines run; offline the
set of matching signatures and their specificity order are recomputed with an independent matcher. Order axioms and agreement with an
independent membership predicate are checked on a pool of parametric types and sampled values.
"""
import itertools
import typing

import numpy as np

from ..common import digest, shard_rng, short
from ..monitors import Riders

ID = "C16"
LEVEL = "exploration"
RULE = ("(A) every (dispatcher, argument-type tuple) observed while running engines E1,E2,E4,E8,E9,E10,E12-synth (term interpretations and op "
        "dispatchers): chosen rule's signature must be <= every matching signature under an independent position-wise order; the same rule "
        "must be chosen after clearing the dispatch cache and by a dispatcher rebuilt from the same registrations in 3 shuffled orders; "
        "every term constructed meanwhile has the precise type computed from its own arguments; (A') synthesised argument-type tuples (python / numpy scalars, arrays, tuples, lists, funsor terms in every position) for the dispatcher "
        "of every op class; (B) pool of observed + registered + synthetic parametric types (Tuple, variadic Tuple, Union, FrozenSet, Any, op classes, "
        "parametrised term types): reflexivity, transitivity (all triples via the boolean matrix), subtype soundness w.r.t. an independent "
        "membership predicate on sampled values, deep_isinstance vs that predicate. A case is one observed type tuple / one (value, type) pair; "
        "non-trivial when >=2 signatures match or the type is parametric; distinct by repr")
ASSUMPTIONS = ["plain-class issubclass/isinstance as the base relation", "empty tuples/frozensets are excluded (deep_type of an empty collection is the bare collection type by design)"]
MIN_NONTRIVIAL = {"quick": 1500, "thorough": 6000}
REQUIRED_COUNTERS = ["dispatch:observed-type-tuples", "dispatch:most-specific-ok", "dispatch:cache-cleared-same", "dispatch:shuffled-registration-same",
                     "axioms:reflexive-ok", "axioms:transitive-pairs", "membership:agree", "synth:type-tuples", "precise-type:terms-checked"]


def plan(tier, seed):
    shards = []
    engs = ["E1", "E2", "E4", "E8-gaussian", "E9-marginals", "E10-sampling", "E12-synth", "E3", "E6-markov", "E5-plated", "E1-routes", "E1-lazy"]
    for r in range(1 if tier == "quick" else 4):
        for e in engs:
            shards.append({"name": "obs-%s-%d" % (e, r), "kind": "observe", "engine": e, "n": 120 if tier == "quick" else 300, "timeout": 3000})
    shards.append({"name": "axioms", "kind": "axioms", "timeout": 3000})
    nsy = 4 if tier == "quick" else 8
    for i in range(nsy):
        shards.append({"name": "synth-ops-%d" % i, "kind": "synth-ops", "index": i, "of": nsy, "timeout": 3000})
    return shards


# ---------------------------------------------------------------------------
# independent matcher


def unwrap(t):
    from funsor.typing import typing_wrap

    if isinstance(t, type(typing_wrap)) and getattr(t, "__args__", None) and getattr(t, "__origin__", None) is typing_wrap:
        return t.__args__[0]
    return t


def leq(a, b):
    """a is a subtype of b (the relation under test is funsor's deep_issubclass; C16-B checks its axioms separately)"""
    from funsor.typing import deep_issubclass

    try:
        return bool(deep_issubclass(unwrap(a), unwrap(b)))
    except TypeError:
        try:
            return issubclass(a, b)
        except TypeError:
            return False


def split_sig(sig):
    from multipledispatch.variadic import isvariadic

    if sig and isvariadic(sig[-1]):
        return tuple(sig[:-1]), tuple(sig[-1].variadic_type)
    return tuple(sig), None


def sig_matches(types, sig):
    head, var = split_sig(sig)
    if var is None:
        return len(types) == len(head) and all(leq(t, s) for t, s in zip(types, head))
    if len(types) < len(head):
        return False
    if not all(leq(t, s) for t, s in zip(types, head)):
        return False
    return all(any(leq(t, v) for v in var) for t in types[len(head):])


def sig_leq(a, b):
    """signature a is at least as specific as b (every argument tuple matching a matches b)"""
    ha, va = split_sig(a)
    hb, vb = split_sig(b)
    if vb is None:
        if va is not None:
            return False
        return len(ha) == len(hb) and all(leq(x, y) for x, y in zip(ha, hb))
    if len(ha) < len(hb):
        return False
    if not all(leq(x, y) for x, y in zip(ha, hb)):
        return False
    rest = list(ha[len(hb):]) + (list(va) if va is not None else [])
    return all(any(leq(x, v) for v in vb) for x in rest)


def run_shard(shard, res):
    rng = shard_rng(shard["seed"], ID, shard["name"])
    if shard["kind"] == "axioms":
        return run_axioms(res, rng)
    if shard["kind"] == "synth-ops":
        return run_synth_ops(shard, res, rng)
    return run_observe(shard, res, rng)


def run_observe(shard, res, rng):
    import funsor.registry as registry
    from funsor.typing import deep_type, typing_wrap

    from ..workloads import engines

    observed = {}
    orig = registry.PartialDispatcher.partial_call

    def partial_call(self, *args):
        types = tuple(map(typing_wrap, map(deep_type, args)))
        observed.setdefault(id(self), (self, {}))[1].setdefault(types, None)
        return orig(self, *args)

    registry.PartialDispatcher.partial_call = partial_call
    # every constructed term must be an instance of the precise type computed from its own arguments (what patterns are matched against)
    from funsor.interpretations import reflect
    from funsor.terms import Funsor
    from funsor.typing import get_origin

    orig_reflect = reflect.interpret
    type_problems = {}
    checked = [0]

    def reflect_interpret(cls, *args):
        r = orig_reflect(cls, *args)
        try:
            if isinstance(r, Funsor):
                want = get_origin(type(r))[tuple(map(deep_type, r._ast_values))]
                checked[0] += 1
                if type(r) is not want and len(type_problems) < 20:
                    type_problems.setdefault(get_origin(type(r)).__name__, "a %s term has type %s but its arguments have types %s" % (
                        get_origin(type(r)).__name__, repr(type(r))[:200], repr(want)[:200]))
        except Exception as e:
            res.count("precise-type:monitor-error:%s" % type(e).__name__)
        return r

    if not getattr(orig_reflect, "_fv_wrapped16", False):
        reflect_interpret._fv_wrapped16 = True
        reflect.interpret = reflect_interpret
    riders = Riders(res)
    try:
        for label, holder, thunk in engines()[shard["engine"]](rng, shard["n"]):
            riders.before(holder)
            try:
                with np.errstate(all="ignore"):
                    thunk()
            except Exception as e:
                res.count("workload-declined:%s" % type(e).__name__)
            riders.after(None)
    finally:
        registry.PartialDispatcher.partial_call = orig
        reflect.interpret = orig_reflect
    res.count("precise-type:terms-checked", checked[0])
    for name, msg in type_problems.items():
        res.violation("typing:term-type-disagrees-with-arguments", msg)
    for disp, tset in observed.values():
        if not hasattr(disp, "funcs"):
            continue
        for types in list(tset):
            check_dispatch(disp, types, res, rng)


def run_synth_ops(shard, res, rng):
    """synthesised argument tuples for the dispatcher of every op class: python scalars (virtual subclasses of the numbers ABCs), numpy
    scalars and arrays, tuples/lists and funsor terms in every position"""
    from collections import OrderedDict

    import funsor
    import funsor.ops as ops
    from funsor.domains import Bint, Real
    from funsor.ops.op import Op
    from funsor.tensor import Tensor
    from funsor.terms import Number, Variable
    from funsor.typing import deep_type, typing_wrap

    values = [0.5, 2, True, np.float64(0.5), np.int64(3), np.array([0.5, 1.5]), np.array(1.0), np.array([1, 2]), (0.5, 1.5), [0.5, 1.5],
              (np.array([0.5]), np.array([1.5])), Number(1.5), Number(1, 3), Tensor(np.array([0.5, 1.5]), OrderedDict(i=Bint[2])), Tensor(np.array(0.5)),
              Variable("x", Real), Variable("x", Real) + 1.0, None, "s"]
    types = []
    for v in values:
        try:
            types.append(typing_wrap(deep_type(v)))
        except Exception:
            res.count("synth:deep_type-declined")
    seen = set()
    classes = []
    stack = [Op]
    while stack:
        c = stack.pop()
        for sub in c.__subclasses__():
            if sub not in seen:
                seen.add(sub)
                stack.append(sub)
                classes.append(sub)
    classes.sort(key=lambda c: c.__name__)
    n = 0
    for ci, cls in enumerate(classes):
        if ci % shard["of"] != shard["index"]:
            continue
        disp = cls.__dict__.get("dispatcher") or getattr(cls, "dispatcher", None)
        if disp is None or not hasattr(disp, "funcs") or not isinstance(getattr(cls, "arity", None), int):
            continue
        res.observe("synth-op-classes", cls.__name__)
        arity = cls.arity
        combos = list(itertools.product(types, repeat=arity)) if arity <= 2 else [tuple(types[int(j)] for j in rng.integers(len(types), size=arity)) for _ in range(300)]
        for tt in combos:
            check_dispatch(disp, tt, res, rng)
            n += 1
    res.count("synth:type-tuples", n)


def fname(fn):
    fn = getattr(fn, "default", fn)
    fn = getattr(fn, "fn", fn)
    return "%s.%s" % (getattr(fn, "__module__", "?"), getattr(fn, "__qualname__", getattr(fn, "__name__", repr(fn))))


def rule_of(fn):
    """the registered rule function behind wrappers (PartialDefault, functools.partial made by subclass_register)"""
    for _ in range(4):
        nxt = getattr(fn, "default", None) or getattr(fn, "fn", None) or getattr(fn, "func", None)
        if nxt is None or nxt is fn:
            break
        fn = nxt
    return fn


def most_specific_exists(disp, types):
    try:
        chosen = disp.dispatch(*types)
    except Exception:
        return False
    ms = [s for s in disp.funcs if sig_matches(types, s)]
    csigs = [s for s in ms if disp.funcs[s] is chosen]
    others = [s for s in ms if rule_of(disp.funcs[s]) is not rule_of(chosen)]
    return bool(csigs) and any(all(sig_leq(cs, s) for s in others) for cs in csigs)


def dual_scalar_ambiguity(disp, types):
    """True iff the ambiguity is due to numpy scalar types, which are numpy.generic (funsor's `array` pattern) AND registered with the
    numbers ABCs / subclasses of float (the scalar patterns): with each such argument type replaced by a pure array type
    (numpy.ndarray) or a pure python number (float), in every combination, the dispatcher does pick a most specific pattern"""
    from funsor.typing import typing_wrap

    pos = [i for i, t in enumerate(types) if isinstance(unwrap(t), type) and issubclass(unwrap(t), np.generic)]
    if not pos:
        return False
    for combo in itertools.product((np.ndarray, float), repeat=len(pos)):
        sub = dict(zip(pos, combo))
        t2 = tuple(typing_wrap(sub[i]) if i in sub else t for i, t in enumerate(types))
        if not most_specific_exists(disp, t2):
            return False
    return True


def check_dispatch(disp, types, res, rng):
    from funsor.registry import PartialDispatcher

    res.count("dispatch:observed-type-tuples")
    try:
        chosen = disp.dispatch(*types)
    except Exception as e:
        res.count("dispatch:error:%s" % type(e).__name__)
        return
    ms = [s for s in disp.funcs if sig_matches(types, s)]
    tname = tuple(repr(unwrap(t))[:60] for t in types)
    key = digest((disp.name, tname))
    nontriv = len(ms) >= 2
    res.case(key=key, nontrivial=nontriv, sample={"dispatcher": disp.name, "types": list(tname), "matching_signatures": len(ms), "chosen": fname(chosen) if chosen else None} if nontriv else None)
    if chosen is None:
        if ms:
            res.violation("dispatch:no-rule-chosen", "%s: signatures %s match %s but dispatch returned nothing" % (disp.name, len(ms), tname))
        return
    csigs = [s for s in ms if disp.funcs[s] is chosen]
    if not csigs:
        res.violation("dispatch:chosen-does-not-match", "%s chose %s for %s although none of its signatures matches under the independent matcher" % (disp.name, fname(chosen), tname))
        return
    # patterns registered for the chosen rule itself do not compete with it: (Funsor, object, object) and (object, object, Funsor) both
    # lead to the same rule function
    others = [s for s in ms if rule_of(disp.funcs[s]) is not rule_of(chosen)]
    if not any(all(sig_leq(cs, s) for s in others) for cs in csigs):
        more = [fname(disp.funcs[s]) for s in others if not any(sig_leq(cs, s) for cs in csigs)]
        if dual_scalar_ambiguity(disp, types):
            res.violation("dispatch:not-most-specific+numpy-scalar-is-number-and-generic", "%s chose %s for %s: numpy scalar types are numpy.generic and also numbers.Number (float64 is even a float), so a scalar pattern and an array pattern both match and neither is more specific" % (disp.name, fname(chosen), tname))
            return
        res.violation("dispatch:not-most-specific", "%s chose %s for %s but its pattern is not at least as specific as the matching pattern(s) of %s" % (disp.name, fname(chosen), tname, sorted(set(more))[:4]))
        return
    res.count("dispatch:most-specific-ok")
    # independent of cache state
    try:
        disp._cache.clear()
        again = disp.dispatch(*types)
        if rule_of(again) is not rule_of(chosen):
            res.violation("dispatch:depends-on-cache", "%s chose %s for %s, but %s after clearing its cache" % (disp.name, fname(chosen), tname, fname(again)))
        else:
            res.count("dispatch:cache-cleared-same")
    except Exception as e:
        res.count("dispatch:cache-clear-error:%s" % type(e).__name__)
    # independent of registration order among the same (signature, function) pairs
    if len(ms) >= 2 and rng.random() < 0.25:
        pairs = list(disp.funcs.items())
        for k in range(3):
            order = rng.permutation(len(pairs))
            d2 = PartialDispatcher(name=disp.name + "-shuffled")
            import multipledispatch.dispatcher as md

            for i in order:
                sig, fn = pairs[int(i)]
                md.Dispatcher.add(d2, sig, fn)  # signatures are already wrapped
            try:
                c2 = d2.dispatch(*types)
            except Exception as e:
                res.count("dispatch:shuffle-error:%s" % type(e).__name__)
                break
            if rule_of(c2) is not rule_of(chosen):
                res.violation("dispatch:depends-on-registration-order", "%s chooses %s for %s, but a dispatcher rebuilt from the same registrations in another order chooses %s" % (
                    disp.name, fname(chosen), tname, fname(c2)))
                break
        else:
            res.count("dispatch:shuffled-registration-same")


# ---------------------------------------------------------------------------
# (B) axioms and membership


def member(x, T):
    """independent textbook membership of a python value in a (possibly parametric) type"""
    from funsor.terms import Funsor
    from funsor.typing import GenericTypeMeta, get_args, get_origin

    T = unwrap(T)
    if T is typing.Any or T is object:
        return True
    origin = get_origin(T)
    args = get_args(T)
    if origin is typing.Union:
        return any(member(x, a) for a in args)
    if origin in (tuple, typing.Tuple):
        if not isinstance(x, tuple):
            return False
        if not args:
            return True
        if args[-1] is Ellipsis:
            return all(member(e, args[0]) for e in x)
        return len(x) == len(args) and all(member(e, a) for e, a in zip(x, args))
    if origin in (frozenset, typing.FrozenSet):
        if not isinstance(x, frozenset):
            return False
        return all(member(e, args[0]) for e in x) if args else True
    if isinstance(T, GenericTypeMeta) and args:
        if not isinstance(x, origin):
            return False
        vals = getattr(x, "_ast_values", None)
        if vals is None or len(vals) != len(args):
            return False
        return all(member(v, a) for v, a in zip(vals, args))
    try:
        return isinstance(x, T)
    except TypeError:
        return False


def get_origin_(t):
    from funsor.typing import get_origin

    return get_origin(t)


def run_axioms(res, rng):
    from collections import OrderedDict

    import funsor.terms as T
    from funsor import ops
    from funsor.cnf import Contraction
    from funsor.domains import Bint, Real
    from funsor.gaussian import Gaussian
    from funsor.tensor import Tensor
    from funsor.typing import deep_isinstance, deep_issubclass, deep_type

    # sampled values
    t1 = Tensor(np.arange(2.0), OrderedDict(i=Bint[2]))
    x = T.Variable("x", Real)
    n1 = T.Number(1.5)
    with_lazy = []
    from funsor.interpretations import lazy, reflect

    with reflect:
        b1 = t1 + x
        b2 = t1 * n1
        u1 = ops.exp(x)
        r1 = (t1 * x).reduce(ops.add, "i")
        s1 = T.Stack("s", (x, n1))
    c1 = t1 + x  # Contraction under eager
    values = [1, 2.5, "a", True, t1, x, n1, b1, b2, u1, r1, s1, c1, ops.add, ops.mul, ops.exp, ops.GetitemOp(1), Bint[2], Real,
              (1, "a"), (1, 2), (1, 2, 3), ("a",), (t1, x), (t1, t1, n1), (x, (1, "a")), ((1, 2), (3,)), (ops.add, t1, x),
              frozenset([1, 2]), frozenset(["a"]), frozenset([x]), frozenset([T.Variable("i", Bint[2]), T.Variable("j", Bint[3])]), frozenset([(1, "a")]),
              (frozenset([x]), t1), (ops.add, ops.mul, frozenset([x]), (t1, x))]
    base = [int, float, str, bool, tuple, frozenset, T.Funsor, T.Variable, T.Number, Tensor, T.Binary, T.Unary, T.Reduce, T.Stack, Contraction, Gaussian,
            ops.Op, ops.AssociativeOp, ops.BinaryOp, ops.UnaryOp, ops.AddOp, ops.MulOp, ops.ExpOp, ops.GetitemOp, ops.TransformOp, typing.Any]
    pool = list(base)
    pool += [typing.Tuple, typing.Tuple[int, str], typing.Tuple[int, int], typing.Tuple[int, ...], typing.Tuple[typing.Any, ...], typing.Tuple[typing.Any, str],
             typing.Tuple[T.Funsor, ...], typing.Tuple[Tensor, T.Variable], typing.Tuple[T.Funsor, T.Funsor], typing.Tuple[Tensor, ...], typing.Tuple[Tensor, Tensor, T.Number],
             typing.Tuple[typing.Tuple[int, ...], typing.Tuple[int]], typing.Tuple[typing.Tuple[int, int], typing.Tuple[int]], typing.Tuple[T.Variable, typing.Tuple[int, str]],
             typing.Tuple[ops.Op, T.Funsor, T.Funsor], typing.Tuple[ops.AddOp, Tensor, T.Variable], typing.Tuple[typing.Union[int, str], ...],
             typing.Union[int, str], typing.Union[Tensor, T.Number], typing.Union[T.Funsor, int], typing.Union[Tensor, T.Variable, T.Number],
             typing.Union[T.Number, T.Unary[ops.NegOp, T.Variable]], typing.Union[T.Number, T.Unary[ops.ExpOp, T.Variable]], typing.Union[typing.Tuple[int, int], str],
             typing.Union[T.Binary[ops.MulOp, Tensor, T.Number], T.Variable], typing.Tuple[typing.Union[T.Number, T.Unary[ops.NegOp, T.Variable]], ...],
             T.Unary[ops.NegOp, T.Variable], T.Unary[ops.NegOp, Tensor], T.Binary[ops.AddOp, Tensor, T.Number],
             typing.FrozenSet, typing.FrozenSet[int], typing.FrozenSet[str], typing.FrozenSet[T.Variable], typing.FrozenSet[T.Funsor], typing.FrozenSet[typing.Any],
             typing.FrozenSet[typing.Tuple[int, str]], typing.FrozenSet[typing.Union[int, str]],
             T.Binary[ops.AddOp, Tensor, T.Variable], T.Binary[ops.Op, T.Funsor, T.Funsor], T.Binary[ops.AssociativeOp, Tensor, T.Funsor], T.Binary[ops.MulOp, Tensor, T.Number],
             T.Unary[ops.ExpOp, T.Variable], T.Unary[ops.Op, T.Funsor], T.Unary[ops.TransformOp, T.Funsor],
             T.Reduce[ops.AddOp, T.Funsor, frozenset], T.Reduce[ops.AssociativeOp, T.Binary, typing.FrozenSet[T.Variable]],
             T.Stack[str, typing.Tuple[T.Funsor, ...]], T.Stack[str, typing.Tuple[T.Variable, T.Number]],
             Contraction[ops.Op, ops.AddOp, frozenset, typing.Tuple[Tensor, T.Variable]], Contraction[ops.AssociativeOp, ops.AssociativeOp, frozenset, typing.Tuple[T.Funsor, ...]],
             Contraction[typing.Union[ops.LogaddexpOp, ops.NullOp], ops.AddOp, frozenset, typing.Tuple[typing.Union[Tensor, T.Number], Gaussian]]]
    pool += [deep_type(v) for v in values]
    uniq = []
    for p in pool:
        if not any(p is q for q in uniq):
            uniq.append(p)
    pool = uniq
    # parametrised types of different classes never coincide, whatever the order of construction
    import gc as _gc

    by_arity = {2: [T.Unary, T.Subs, T.Stack, T.Lambda, T.Variable, T.Number, T.Align], 3: [T.Binary, T.Reduce, T.Cat, Tensor],
                4: [Contraction, T.Independent, T.Scatter, T.Approximate]}
    for args in [(ops.AddOp, Tensor), (str, tuple), (T.Funsor, tuple), (Tensor, T.Variable, frozenset), (ops.Op, T.Funsor, T.Funsor), (str, tuple, str),
                 (ops.AddOp, ops.MulOp, frozenset, tuple), (T.Funsor, str, str, str)]:
        made = [(c, c[args]) for c in by_arity[len(args)]]
        for (ca, xa), (cb, xb) in itertools.combinations(made, 2):
            res.case(key="typecache:%s:%s:%s" % (ca.__name__, cb.__name__, args), nontrivial=True)
            if xa is xb or get_origin_(xa) is not ca or get_origin_(xb) is not cb:
                res.violation("typing:parametrised-types-conflated", "%s[%s] and %s[%s] are the same class object (origin %r / %r)" % (
                    ca.__name__, args, cb.__name__, args, get_origin_(xa), get_origin_(xb)))
            elif deep_issubclass(xa, cb) and not issubclass(ca, cb):
                res.violation("typing:parametrised-types-conflated", "%s[%s] is reported a subclass of %s" % (ca.__name__, args, cb.__name__))
        del made
        _gc.collect()
    n = len(pool)
    res.count("axioms:pool-size", n)
    M = np.zeros((n, n), dtype=bool)
    for i, a in enumerate(pool):
        for j, b in enumerate(pool):
            try:
                M[i, j] = bool(deep_issubclass(a, b))
            except TypeError:
                M[i, j] = False
    for i, a in enumerate(pool):
        res.case(key="refl:" + repr(a)[:80], nontrivial=bool(getattr(a, "__args__", None)))
        if not M[i, i]:
            res.violation("subtype:not-reflexive", "deep_issubclass(%r, %r) is False" % (a, a))
        else:
            res.count("axioms:reflexive-ok")
    comp = (M.astype(np.int32) @ M.astype(np.int32)) > 0
    bad = np.argwhere(comp & ~M)
    res.count("axioms:transitive-pairs", int(M.sum()))
    for i, k in bad[:5]:
        j = next(j for j in range(n) if M[i, j] and M[j, k])
        res.violation("subtype:not-transitive", "%r <= %r and %r <= %r but not %r <= %r" % (pool[i], pool[j], pool[j], pool[k], pool[i], pool[k]))
    # membership agreement and subtype soundness
    mem = np.zeros((len(values), n), dtype=bool)
    for vi, v in enumerate(values):
        for ti, tp in enumerate(pool):
            want = member(v, tp)
            mem[vi, ti] = want
            try:
                got = bool(deep_isinstance(v, tp))
            except Exception as e:
                res.count("membership:error:%s" % type(e).__name__)
                res.observe("membership-errors", "%s in %r: %s" % (short(repr(v), 40), tp, str(e)[:60]))
                continue
            res.case(key="mem:%s:%s" % (short(repr(v), 40), repr(tp)[:80]), nontrivial=bool(getattr(tp, "__args__", None)) or isinstance(v, (tuple, frozenset)),
                     sample={"value": short(repr(v), 60), "type": repr(tp)[:100], "member": bool(want)} if vi * n + ti < 3 else None)
            if got != want:
                res.violation("membership:%s" % ("false-positive" if got else "false-negative"), "deep_isinstance(%s, %r) is %s but the value %s a member by the textbook definition" % (
                    short(repr(v), 80), tp, got, "is" if want else "is not"))
            else:
                res.count("membership:agree")
        # every term is an instance of its own precise type
        if not deep_isinstance(v, deep_type(v)):
            res.violation("membership:not-instance-of-own-type", "deep_isinstance(x, deep_type(x)) is False for %s" % short(repr(v), 80))
    # soundness: S <= T and x in S  =>  x in T
    for i in range(n):
        for j in range(n):
            if M[i, j]:
                wit = np.argwhere(mem[:, i] & ~mem[:, j])
                if len(wit):
                    res.violation("subtype:unsound", "deep_issubclass(%r, %r) holds but %s is a member of the first and not of the second" % (pool[i], pool[j], short(repr(values[int(wit[0][0])]), 60)))
    res.count("axioms:soundness-pairs-checked", int(M.sum()))
