"""C02 Every rewrite step of an exact interpretation preserves value.

Monitor: M02 (fv/dispatchmon.py) on every DispatchedInterpretation.dispatch and every SubstituteInterpretation.interpret step, riding
on the workloads of all engines. Each firing `rule(*args) = result` is decided offline: the result, lifted, must have the same value as
the (class, args) it replaces at every point of the joint integer input space (real inputs at sample points) and no new inputs.
"""
import collections

import numpy as np

from ..common import digest, shard_rng
from ..dispatchmon import EXACT, check_firing, describe_firing, get_monitor
from ..monitors import Riders

ID = "C02"
LEVEL = "exploration"
RULE = ("every rule firing (eager, normalize, lazy, sequential, moment_matching without Gaussians, compress_gaussians, unfold, optimize, and "
        "per-class eager_subs steps) observed while running all engines E1-E14; per (rule function, operators of its arguments) class the first 150 non-identity firings are "
        "always checked and 10% afterwards; each firing is decided on its whole integer input space (<=48 points) and 2 sample points per real "
        "input; firings outside the carrier of the semiring they rely on are skipped and counted. A case is one checked firing; non-trivial "
        "when the rewrite is not the identity and >=2 points were compared; distinct by (rule, lifted lhs hash)")
ASSUMPTIONS = ["fv/refsem.py, fv/lift.py", "moment_matching firings involving Gaussians, MonteCarlo, Precondition and approximations are not exact by their documentation and are not monitored",
               "firings whose replaced term integrates over a real variable are undecided (counted)"]
MIN_NONTRIVIAL = {"quick": 3000, "thorough": 30000}
REQUIRED_COUNTERS = ["firings:checked", "firings:ok"]
MIN_RULES = {"quick": 45, "thorough": 60}


def plan(tier, seed):
    per = {"E1": 260, "E1-lazy": 200, "E1-routes": 120, "E2": 260, "E3": 200, "E4": 200, "einsum": 60, "E5-plated": 60, "E6-markov": 50, "E7-adjoint": 50,
           "E8-gaussian": 120, "E9-marginals": 80, "E10-sampling": 60, "E14-compiler": 80, "E12-synth": 150}
    reps = 1 if tier == "quick" else 8
    shards = []
    for r in range(reps):
        for eng, n in per.items():
            shards.append({"name": "%s-%d" % (eng, r), "engine": eng, "n": n, "timeout": 3000})
    return shards


def registered_rules():
    """qualified names of every rule function registered with the monitored interpretations"""
    import funsor.interpretations as I
    import funsor.optimizer as O

    out = {}
    for name, interp in (("eager", I.eager_base), ("normalize", I.normalize_base), ("lazy", I.lazy_base), ("sequential", I.sequential_base),
                         ("moment_matching", I.moment_matching_base), ("compress_gaussians", I.compress_gaussians_base),
                         ("unfold", O.unfold_base), ("optimize", O.optimize_base)):
        for key, disp in interp.registry.registry.items():
            for sig, fn in disp.funcs.items():
                fn = getattr(fn, "default", fn)
                q = "%s.%s" % (getattr(fn, "__module__", "?"), getattr(fn, "__qualname__", getattr(fn, "__name__", "?")))
                if "<lambda>" in q:
                    continue
                out.setdefault(q, set()).add(name)
    return out


def _arg_class(f):
    """the sampling class of a firing: the operators of its arguments (a rule registered for a family of operators must be checked for
    each member it fires on, not only the most frequent one)"""
    out = []
    for a in f.args:
        if isinstance(a, str):
            out.append(a)
        elif hasattr(a, "red_op") and hasattr(a, "bin_op"):
            out.append("C:%s:%s" % (a.red_op, a.bin_op))
        elif hasattr(a, "op") and not isinstance(a, (int, float)):
            out.append("%s:%s" % (type(a).__name__.split("[")[0], getattr(a, "op", "")))
        elif type(a).__module__.startswith("funsor.ops"):
            out.append(str(a))
        else:
            out.append(type(a).__name__.split("[")[0])
    return tuple(out)


def run_shard(shard, res):
    from ..workloads import engines

    rng = shard_rng(shard["seed"], ID, shard["name"])
    riders = Riders(res)
    mon = get_monitor()
    for q in registered_rules():
        res.observe("rules-registered", q)
    seen_per_rule = collections.Counter()
    gen = engines()[shard["engine"]](rng, shard["n"])
    for label, holder, thunk in gen:
        riders.before(holder)
        mon.start()
        try:
            with np.errstate(all="ignore"):
                thunk()
        except Exception as e:
            res.count("workload-declined:%s" % type(e).__name__)
        fs = mon.stop()
        res.count("firings:observed", len(fs))
        # a rule that is inexact by design (moment matching of Gaussian mixtures) taints every firing it is nested in
        tainted = set()
        for f in fs:
            if f.interp == "moment_matching" and f.result is not None and _has_gaussian(f):
                p = f.parent
                while p is not None and p not in tainted:
                    tainted.add(p)
                    p = fs[p].parent
        for f in fs:
            if f.index in tainted:
                res.count("firings:skipped-contains-inexact-step")
                continue
            rule = f.rule
            if f.interp == "subs":
                from funsor.typing import get_origin

                rule = "%s.eager_subs" % get_origin(f.cls).__name__
            if f.result is None:
                res.observe("rules-returned-none", rule)
                continue
            res.observe("rules-fired", rule)
            cls_key = (rule, _arg_class(f))
            seen_per_rule[cls_key] += 1
            if seen_per_rule[cls_key] > 150 and rng.random() > 0.1:
                res.count("firings:sampled-out")
                continue
            if f.interp == "moment_matching" and _has_gaussian(f):
                res.count("firings:skipped-inexact-moment-matching")
                continue
            try:
                v = check_firing(f, rng, max_cost=400000)   # DAG-shaped programs lift to exponentially large trees: those firings are undecided
            except Exception as e:
                res.count("firings:checker-error:%s" % type(e).__name__)
                continue
            res.count("firings:checked")
            res.count("firings:%s" % v.status)
            if v.status == "undecided":
                res.count("undecided:%s" % v.kind)
                res.observe("rules-undecided", rule)
            elif v.status == "out-of-carrier":
                res.observe("rules-out-of-carrier", rule)
            elif v.status == "ok":
                res.observe("rules-identity-ok" if v.identity else "rules-nonidentity-ok", rule)
                nontriv = (not v.identity) and v.points >= 2
                key = None
                if nontriv:
                    try:
                        from ..lift import lift_call

                        key = digest((rule, lift_call(f.cls, f.args)))
                    except Exception:
                        key = None
                res.case(key=key, nontrivial=nontriv and key is not None,
                         sample={"rule": rule, "interpretation": f.interp, "firing": describe_firing(f, 300), "points": v.points, "engine": shard["engine"]} if nontriv else None)
            elif v.status == "bad":
                from ..triage import firing_tags

                tags = firing_tags(f)
                # only innermost failing firings are reported: a rule whose result embeds the result of a failing nested firing inherits its error
                res.count("firings:bad:%s" % rule)
                _pending_bad.append((f, v, rule + ("+" + "+".join(tags) if tags else "")))
        _report_innermost(fs, res, label)
        muts, rep = riders.after(None)
        for m in muts:
            res.violation("rider:mutation", "%s in %s" % (m, label))
        if rep:
            res.violation("rider:stack", "%s after %s" % (rep, label))


_pending_bad = []


def _report_innermost(fs, res, label):
    global _pending_bad
    bad_idx = {f.index for f, v, key in _pending_bad}
    has_bad_desc = set()
    for i in bad_idx:
        p = fs[i].parent if i < len(fs) else None
        while p is not None:
            has_bad_desc.add(p)
            p = fs[p].parent
    for f, v, key in _pending_bad:
        if f.index in has_bad_desc:
            res.count("firings:bad-inherited")
            continue
        try:
            from ..lift import lift, lift_call

            case = {"lhs": lift_call(f.cls, f.args), "rhs": lift(f.result)}
        except Exception:
            case = None
        res.violation("rule:%s:%s" % (key, v.kind), "%s | %s | workload %s" % (v.detail, describe_firing(f, 600), label), case=case)
    _pending_bad = []


def _has_gaussian(f):
    from funsor.gaussian import Gaussian
    from funsor.terms import Funsor

    def walk(x, d=0):
        if isinstance(x, Gaussian):
            return True
        if isinstance(x, Funsor) and d < 5:
            return any(walk(c, d + 1) for c in x._ast_values)
        if isinstance(x, (tuple, frozenset)):
            return any(walk(c, d + 1) for c in x)
        return False

    return any(walk(a) for a in f.args)


def finish(counters, sets, tier):
    out = []
    n = len(sets.get("rules-nonidentity-ok", ()))
    if n < MIN_RULES[tier]:
        out.append("only %d distinct rule functions had a checked non-identity firing (< %d)" % (n, MIN_RULES[tier]))
    return out
