"""C05 Bound variables are invisible: no capture, no leakage, renaming-invariant.

Oracle: the IR has explicit binders and fv.refsem extends environments lexically, so the reference cannot capture.
Workload: (a) template families with *every* assignment of their name slots to a pool of 3 equal-sized names,
(b) random binder-heavy programs over that tiny pool, each under every exact route.
"""
import itertools

import numpy as np

from ..common import digest, shard_rng
from ..gen.e1 import Gen
from ..ir import IllTyped, Unsupported, kinds_in, show, typecheck
from ..monitors import Riders
from ..oracle import Verdict, compare

ID = "C05"
LEVEL = "exploration"
RULE = ("binder families {nested/sibling Reduce, substitution of values whose free names equal inner binders, Lambda+getitem, "
        "Cat part names, Independent, Contraction, Integrate, a lazy term used twice, self-substitution t(j=t)} with every assignment "
        "of their name slots to the pool {i,j,k} (all of size 2), plus random binder-heavy programs over the same pool; routes eager, "
        "lazy/reflect/normalize then reinterpret, apply_optimizer; checked: bound names never among inputs, inputs within the "
        "program's free names, value equal to the capture-free reference at every point. Non-trivial: >=2 binders and >=2 routes "
        "completed; distinct by IR hash")
ASSUMPTIONS = ["fv/refsem.py lexical scoping is the reference", "names containing '__BOUND' are reserved and never generated"]
MIN_NONTRIVIAL = {"quick": 1500, "thorough": 10000}
REQUIRED_COUNTERS = ["route:eager:ok", "route:lazy:ok", "route:reflect:ok", "route:normalize:ok", "route:optimizer:ok", "bound-leak-checks"]

P3 = ("i", "j", "k")
ROUTES = ("eager", "lazy", "reflect", "normalize", "optimizer")
X = ("var", "x", ("real", ()))
BINDERS = ("red", "lam", "cat", "indep", "contr", "integ", "sub")


def T(rng, names, eshape=(), nonneg=False):
    d = rng.choice(np.arange(-2.0, 2.01, 0.25), size=(2,) * len(names) + tuple(eshape))
    return ("ten", np.ascontiguousarray(np.abs(d) if nonneg else d), tuple(names), "real")


def TI(rng, names):
    return ("ten", rng.integers(0, 2, size=(2,) * len(names)).astype(np.int64), tuple(names), 2)


def V(n):
    return ("var", n, (2, ()))


def D(*names):
    return tuple(sorted((n, (2, ())) for n in names))


def families(rng):
    """yields (family, IR); ill-typed assignments are filtered by the caller"""
    for A, B, C, Dn in itertools.product(P3, repeat=4):
        for op1, op2 in (("add", "add"), ("add", "logaddexp"), ("logaddexp", "add")):
            yield "shadow", ("red", op1, ("bin", "mul" if op1 == "add" else "add", (), T(rng, (A, B)), ("red", op2, ("bin", "add", (), T(rng, (C, Dn)), X), D(C))), D(A))
        yield "sibling", ("bin", "mul", (), ("red", "add", ("bin", "mul", (), T(rng, (A, B)), X), D(A)), ("red", "add", T(rng, (C, Dn)), D(C)))
        yield "contr", ("contr", "add", "mul", D(A), (("bin", "mul", (), T(rng, (A, B)), X), ("red", "add", ("bin", "add", (), T(rng, (C, Dn)), X), D(C))))
        yield "integ", ("integ", T(rng, (A, B)), ("bin", "mul", (), T(rng, (C, Dn)), X), D(A))
    for A, B, C in itertools.product(P3, repeat=3):
        body = ("red", "add", ("bin", "mul", (), T(rng, (A, B)), X), D(A))
        for val in (V(C), TI(rng, (C,)), ("sub", TI(rng, ("j",)), (("j", V(C)),)), ("stack", C, (("num", 0, 2), ("num", 1, 2))) if C != B else V(C)):
            yield "sub-capture", ("sub", body, ((B, val),))
        yield "sub-capture-lazyval", ("sub", ("red", "logaddexp", ("bin", "add", (), T(rng, (A, B)), X), D(A)), ((B, ("sub", TI(rng, ("i", "j")), (("i", V(C)), ("j", V(A))))),))
        yield "lambda", ("bin", "getitem", (("offset", 0),), ("lam", A, 2, ("bin", "mul", (), T(rng, (A, B)), X)), V(C))
        yield "lambda-reduce", ("lam", A, 2, ("red", "add", ("bin", "mul", (), T(rng, (A, C, B) if len({A, C, B}) == 3 else (A, C) if A != C else (A, B)), X), D(C)))
        yield "lambda-sub", ("sub", ("lam", A, 2, ("bin", "add", (), T(rng, (A, B)), X)), ((B, V(C)),))
        for N in P3:
            parts = (("bin", "mul", (), T(rng, (A, B)), X), T(rng, (A,)))
            yield "cat", ("cat", N, parts, A)
            yield "cat-sub", ("sub", ("cat", N, parts, A), ((N, ("ten", rng.integers(0, 4, size=(2,)).astype(np.int64), (C,), 4)),))
            yield "cat-sub-other", ("sub", ("cat", N, parts, A), ((B, V(C)),))
        fn = ("bin", "add", (), ("bin", "mul", (), T(rng, (A, B)), ("var", "d", ("real", ()))), T(rng, (C,)))
        yield "indep", ("sub", ("indep", fn, "r", A, "d"), (("r", ("ten", np.array([0.5, -1.0]), (), "real")),))
        yield "indep-lazy", ("bin", "add", (), ("indep", fn, "r", A, "d"), T(rng, (A,)))
        yield "indep-batched-value", ("sub", ("indep", fn, "r", A, "d"), (("r", ("ten", rng.choice(np.arange(-1, 1.1, 0.5), size=(2, 2)), (C,), "real")),))
    # a lazy term used twice; a lazy term substituted into (a renaming of) itself
    for A, B, C in itertools.product(P3, repeat=3):
        for red, binop, nonneg in (("add", "mul", False), ("logaddexp", "add", False), ("max", "add", False)):
            t = ("red", red, ("bin", binop, (), T(rng, (A, B)), X), D(A))
            yield "shared-product", ("bin", binop, (), t, t)
            yield "shared-renamed", ("bin", binop, (), t, ("sub", t, ((B, V(C)),)))
            yield "shared-reduced", ("red", red, ("bin", binop, (), t, ("sub", t, ((B, V(C)),))), D(B))
            yield "shared-sum", ("bin", red, (), t, t) if red != "logaddexp" else ("bin", "logaddexp", (), t, t)
        # a shared lazy reduction inside a product distributed over a sum, in every operand order
        for red, binop in (("add", "mul"), ("logaddexp", "add")):
            r = ("red", red, ("bin", binop, (), T(rng, (A, B)), X), D(A))
            z = T(rng, (C,))
            yield "shared-distribute", ("bin", binop, (), r, ("bin", red, (), r, z))
            yield "shared-distribute", ("bin", binop, (), ("bin", red, (), r, z), r)
            yield "shared-distribute", ("bin", binop, (), ("bin", red, (), z, r), r)
            yield "shared-distribute", ("bin", red, (), r, ("bin", binop, (), r, z))
            # the same with the factor that mentions the free variable before / after the tensor
            r2 = ("red", red, ("bin", binop, (), X, T(rng, (A, B))), D(A))
            yield "shared-distribute", ("bin", binop, (), r2, ("bin", red, (), r2, z))
        # one user name bound at two nested / sibling binders of a term that occurs twice in a product: after flattening, the second
        # copy's binders (two different variables with the same user name) must be renamed apart, not onto one another
        for red, binop in (("add", "mul"), ("logaddexp", "add")):
            f1, h1 = T(rng, (A, B)), T(rng, (A,))
            nested = ("red", red, ("bin", binop, (), ("red", red, ("bin", binop, (), f1, X), D(A)), h1), D(A))
            sibling = ("bin", binop, (), ("red", red, ("bin", binop, (), f1, X), D(A)), ("red", red, ("bin", binop, (), h1, X), D(A)))
            for x in (nested, sibling):
                yield "shared-same-name-binders", ("bin", binop, (), x, x)
                yield "shared-same-name-binders", ("bin", binop, (), x, ("bin", binop, (), T(rng, (B,)), x))
                yield "shared-same-name-binders", ("red", red, ("bin", binop, (), x, x), D(B))
        # a real-valued lazy term substituted into itself: both copies carry the same mangled binder
        for inner_first in (True, False):
            prod = ("bin", "mul", (), T(rng, (A, B)), ("var", "zr", ("real", ()))) if inner_first else ("bin", "mul", (), ("var", "zr", ("real", ())), T(rng, (A, B)))
            t = ("red", "add", ("un", "tanh", (), prod), D(A))
            yield "self-subst-real", ("sub", t, (("zr", t),))
            yield "self-subst-real", ("sub", t, (("zr", ("bin", "add", (), t, X)),))
        # Independent whose fresh name coincides with one of its bound names
        fnx = ("bin", "add", (), ("bin", "mul", (), T(rng, (A, B)), ("var", "d", ("real", ()))), T(rng, (C,)))
        yield "indep-same-names", ("indep", fnx, "d", A, "d")
        yield "indep-same-names", ("sub", ("indep", fnx, "d", A, "d"), (("d", ("ten", np.array([0.5, -1.0]), (), "real")),))
        yield "indep-same-names", ("bin", "add", (), ("indep", fnx, "d", A, "d"), T(rng, (B,)))
        ti = ("sub", TI(rng, (A,)), ((A, ("stack", B, (V(C), ("num", 1, 2))) if B != C else V(C)),))
        yield "self-subst", ("sub", ti, tuple((n, ti) for n in sorted(set(typecheck_inputs(ti)))[:1]))
        tj = ("bin", "getitem", (("offset", 0),), ("ten", rng.integers(0, 2, size=(2, 2)).astype(np.int64), (A,), 2), V(B))
        yield "self-subst-getitem", ("sub", tj, ((B, tj),))
        yield "self-subst-both", ("sub", tj, ((B, tj), (A, tj)))


def typecheck_inputs(ir):
    try:
        return list(typecheck(ir)[0])
    except (IllTyped, Unsupported):
        return []


def plan(tier, seed):
    n = 12 if tier == "quick" else 36
    shards = [{"name": "families-%d" % i, "kind": "families", "index": i, "of": n, "timeout": 3000} for i in range(n)]
    nr = 12 if tier == "quick" else 48
    for i in range(nr):
        mode = ("arith", "tropical", "nonneg", "arith")[i % 4]
        shards.append({"name": "random-%s-%d" % (mode, i), "kind": "random", "mode": mode, "n": 220 if tier == "quick" else 800, "depth": 3 + (i % 2), "timeout": 3000})
    return shards


def run_route(route, P):
    import funsor
    from funsor.interpretations import lazy, normalize, reflect
    from funsor.optimizer import apply_optimizer

    from ..build import build

    if route == "eager":
        return build(P), None
    if route == "optimizer":
        with lazy:
            L = build(P)
        return apply_optimizer(L), L
    ctx = {"lazy": lazy, "reflect": reflect, "normalize": normalize}[route]
    with ctx:
        L = build(P)
    return funsor.reinterpret(L), L


def run_shard(shard, res):
    rng = shard_rng(shard["seed"], ID, "families" if shard["kind"] == "families" else shard["name"])
    riders = Riders(res)
    if shard["kind"] == "families":
        for n, (fam, P) in enumerate(families(rng)):
            if n % shard["of"] != shard["index"]:
                continue
            run_case(fam, P, res, riders, rng)
        return
    g = Gen(rng, real_vars=0.2, mode=shard["mode"], pool={"i": 2, "j": 2, "k": 2}, fresh_names=False, absent_reduce=0.2,
            allow={"bin", "red", "sub", "lam", "getitem", "cat", "stack", "indep", "slicesub", "un"})
    for _ in range(shard["n"]):
        P = g.real(shard["depth"], ())
        run_case("random-" + shard["mode"], P, res, riders, rng)


def leak_report(L):
    """bound names must never be inputs (checked on the lazily built term and on the evaluated one)"""
    msgs = []
    names = list(L.inputs)
    if any("__BOUND" in n for n in names):
        msgs.append("mangled bound name among inputs: %s" % names)
    bound = getattr(L, "bound", {}) or {}
    both = [n for n in bound if n in L.inputs]
    if both:
        msgs.append("names %s are both bound and inputs of %s" % (both, type(L).__name__))
    return msgs


def run_case(fam, P, res, riders, rng):
    try:
        p_inputs, p_out = typecheck(P)
    except (IllTyped, Unsupported):
        res.count("discarded-illtyped")
        return
    riders.before(P)
    nbind = sum(1 for k in kinds_in(P) if k.split(":")[0] in BINDERS)
    done = 0
    for route in ROUTES:
        try:
            with np.errstate(all="ignore"):
                R, L = run_route(route, P)
        except Exception as e:
            res.count("route:%s:declined:%s" % (route, type(e).__name__))
            continue
        riders.hold(R)
        for obj in (R, L):
            if obj is None:
                continue
            res.count("bound-leak-checks")
            for m in leak_report(obj):
                res.violation("bound-name-leak@%s" % route, "%s | family=%s | %s" % (m, fam, show(P)[:400]), case={"P": P, "route": route, "family": fam})
        try:
            v = compare(R, P, rng, max_points=64)
        except Exception as e:
            res.count("harness:oracle-exception:%s" % type(e).__name__)
            v = Verdict("undecided", "oracle-exception", str(e))
        res.count("route:%s:%s" % (route, v.status))
        if v.status == "ok":
            done += 1
        elif v.status == "bad":
            from ..triage import localise

            t = localise(lambda: run_route(route, P), rng)
            if t.out_of_carrier and not t.culprits:
                res.count("skipped:out-of-carrier")
            else:
                res.violation("%s@%s" % (v.kind, t.key), "[%s] family=%s %s: %s | program: %s | culprit: %s" % (
                    route, fam, v.kind, v.detail, show(P)[:400], "; ".join(t.descriptions)[:500] or "none among %d firings" % t.firings),
                    case={"P": P, "route": route, "family": fam})
        if L is not None and route in ("lazy", "reflect") and v.status != "bad":
            # the lazily built term itself (before reinterpretation) must already denote the value
            try:
                vl = compare(L, P, rng, max_points=32)
                res.count("lazy-term:%s" % vl.status)
                if vl.status == "bad":
                    res.violation("%s@lazy-term-%s" % (vl.kind, route), "[%s, before reinterpretation] family=%s %s: %s | program: %s" % (
                        route, fam, vl.kind, vl.detail, show(P)[:400]), case={"P": P, "route": route, "family": fam})
            except Exception as e:
                res.count("harness:oracle-exception:%s" % type(e).__name__)
    res.count("family:" + fam)
    nontriv = nbind >= 2 and done >= 2
    res.case(key=digest(P) if nontriv else None, nontrivial=nontriv,
             sample={"family": fam, "program": show(P)[:300], "routes_ok": done} if nontriv else None)
    muts, rep = riders.after(None)
    for m in muts:
        res.violation("rider:mutation", "%s while evaluating %s" % (m, show(P)[:300]), case={"P": P})
    if rep:
        res.violation("rider:stack", "%s after %s" % (rep, show(P)[:300]), case={"P": P})


def replay(rep, res):
    from ..common import dec
    from ..localise import retuple

    c = dec(rep["violation"]["case"])
    run_case(c.get("family", "replay"), retuple(c["P"]), res, Riders(res), shard_rng(0, ID, "replay"))
