"""C18 Compiled and traced programs compute what interpretation computes.

Oracle: differential - compiled program vs printed code vs pickled program vs traced function vs funsor substitution, all vs the
reference evaluator on the IR.
"""
import pickle

import numpy as np

from ..common import close, digest, shard_rng, short
from ..ir import IllTyped, Unsupported, kinds_in, show, typecheck
from ..monitors import Riders
from ..refsem import ref_eval

ID = "C18"
LEVEL = "exploration"
RULE = ("expressions of the compiler fragment: real variables of shapes ()..(2,3), bounded-integer variables used as indices, Number and "
        "input-free Tensor constants, unary ops (pointwise, reductions with axis/keepdims, reshape, getslice), binary ops incl. "
        "non-commutative ones and getitem, Tuple roots, shared sub-expressions, depth<=5; built under eager (Contractions without "
        "reduction) and under reflect (Binary trees); 3 random bindings each; compile_funsor, exec(as_code()), pickle round trip, "
        "trace_function of the same computation; missing/unexpected inputs. Non-trivial: >=3 operations and >=2 inputs; distinct by IR hash")
ASSUMPTIONS = ["fv/refsem.py is the reference", "array constants in printed code are a recorded known finding"]
MIN_NONTRIVIAL = {"quick": 1500, "thorough": 15000}
REQUIRED_COUNTERS = ["compiled:ok", "as_code:ok", "pickled:ok", "traced:ok", "missing-input:rejected", "unexpected-input:rejected"]

SHAPES = [(), (), (2,), (3,), (2, 3)]
GRID = np.arange(-2.0, 2.01, 0.25)


class CGen:
    def __init__(self, rng):
        self.rng = rng
        self.vars = {}
        self.pool = []

    def choice(self, xs):
        return xs[int(self.rng.integers(len(xs)))]

    def var(self, shape):
        name = {(): "x", (2,): "u", (3,): "v", (2, 3): "m"}.get(shape, "w" + "_".join(map(str, shape)) + "_") + str(int(self.rng.integers(0, 2)))
        self.vars[name] = ("real", shape)
        return ("var", name, ("real", shape))

    def leaf(self, shape):
        r = self.rng.random()
        if r < 0.6:
            return self.var(shape)
        if r < 0.75 and shape == ():
            return ("num", float(self.rng.choice(GRID)), "real")
        return ("ten", np.ascontiguousarray(self.rng.choice(GRID, size=shape)), (), "real")

    def expr(self, depth, shape):
        shape = tuple(shape)
        if self.pool and self.rng.random() < 0.15:
            cands = [e for e, s in self.pool if s == shape]
            if cands:
                return self.choice(cands)  # shared sub-expression
        if depth <= 0 or self.rng.random() < 0.15:
            return self.leaf(shape)
        kind = self.choice(["un", "bin", "bin", "bin", "outred", "reshape", "getitem", "getslice", "getitem-var", "keepdims"])
        e = None
        if kind == "un":
            op = self.choice(["neg", "abs", "exp", "sigmoid", "tanh"])
            e = ("un", op, (), self.expr(depth - 1, shape))
        elif kind == "bin":
            op = self.choice(["add", "sub", "mul", "truediv", "max", "min", "sub", "truediv"])
            c = self.rng.random()
            sl, sr = (shape, shape) if c < 0.6 or shape == () else (shape, ()) if c < 0.8 else ((), shape)
            l, r = self.expr(depth - 1, sl), self.expr(depth - 1, sr)
            if op == "truediv":
                r = ("bin", "add", (), ("un", "exp", (), r), ("num", 0.5, "real"))
            e = ("bin", op, (), l, r)
        elif kind == "outred" and len(shape) <= 1:
            op = self.choice(["sum", "prod", "amax", "amin", "logsumexp", "mean"])
            if shape == () and self.rng.random() < 0.3:
                op2 = self.choice(["std", "var"])
                big = self.choice([(3,), (2, 3)])
                e = ("un", op2, (("axis", None), ("ddof", int(self.rng.integers(0, 2))), ("keepdims", False)), self.expr(depth - 1, big))
            elif shape == ():
                big = self.choice([(2,), (3,), (2, 3)])
                e = ("un", op, (("axis", None), ("keepdims", False)), self.expr(depth - 1, big))
            elif shape == (1,) or (len(shape) == 2 and 1 in shape):
                pass
            else:
                big, axis = self.choice([((2,) + shape, 0), (shape + (2,), -1), ((3,) + shape, 0)])
                if len(big) <= 2 and big in [(2, 3)]:
                    e = ("un", op, (("axis", axis), ("keepdims", False)), self.expr(depth - 1, big))
        elif kind == "keepdims" and shape in ((2,), (3,)):
            op = self.choice(["sum", "amax", "mean", "std", "var", "logsumexp"])
            params = (("axis", -1), ("keepdims", True)) if op not in ("std", "var") else (("axis", -1), ("ddof", int(self.rng.integers(0, 2))), ("keepdims", True))
            inner = ("un", op, params, self.expr(depth - 1, shape + (int(self.choice([2, 3])),)))   # shape + (1,)
            e = ("un", "reshape", (("shape", shape),), inner)
        elif kind == "reshape":
            src = {(2, 3): [(3, 2)], (): [(1,)], (2,): [(1, 2), (2, 1)], (3,): [(1, 3)]}.get(shape)
            if src and src[0] in [(2, 3)]:
                e = ("un", "reshape", (("shape", shape),), self.expr(depth - 1, src[0]))
            elif shape == (2, 3):
                e = ("un", "reshape", (("shape", (2, 3)),), ("un", "reshape", (("shape", (3, 2)),), self.expr(depth - 1, (2, 3))))
        elif kind == "getitem":
            big = {(): [(2,), (3,)], (3,): [(2, 3)], (2,): []}.get(shape, [])
            if big:
                b = self.choice(big)
                e = ("bin", "getitem", (("offset", 0),), self.expr(depth - 1, b), ("num", int(self.rng.integers(b[0])), b[0]))
        elif kind == "getitem-var":
            big = {(): [(2,), (3,)], (3,): [(2, 3)]}.get(shape, [])
            if big:
                b = self.choice(big)
                name = "i%d" % b[0]
                self.vars[name] = (b[0], ())
                e = ("bin", "getitem", (("offset", 0),), self.expr(depth - 1, b), ("var", name, (b[0], ())))
        elif kind == "getslice":
            if shape == (2,):
                e = ("un", "getslice", (("index", (slice(0, 2),)),), self.expr(depth - 1, (3,)))
            elif shape == ():
                e = ("un", "getslice", (("index", (Ellipsis, 1)),), self.expr(depth - 1, (2,)))
        if e is None:
            e = ("bin", "add", (), self.expr(depth - 1, shape), self.leaf(shape))
        self.pool.append((e, shape))
        return e

    def program(self, depth):
        self.vars, self.pool = {}, []
        if self.rng.random() < 0.2:
            def part(nest=True):
                if nest and self.rng.random() < 0.3:
                    return ("tuple", tuple(part(False) for _ in range(int(self.rng.integers(1, 3)))))
                return self.expr(depth - 1, SHAPES[int(self.rng.integers(len(SHAPES)))])

            parts = tuple(part() for _ in range(int(self.rng.integers(2, 4))))
            return ("tuple", parts)
        return self.expr(depth, SHAPES[int(self.rng.integers(len(SHAPES)))])


class _NamedConst:
    """prints as a name; the printed source is executed with that name bound to the real constant"""

    def __init__(self, i):
        self.i = i

    def __str__(self):
        return "_fv_const[%d]" % self.i

    __repr__ = __str__

    def __format__(self, spec):
        return str(self)


def named_ok(code_named, program, data, want, res):
    """True iff the printed source computes the right value once its constants are bound by name, i.e. the only thing wrong with
    as_code() output is how array constants are printed (the recorded finding)"""
    if code_named is None:
        return False
    try:
        env = {}
        exec(code_named, {"_fv_const": list(program.constants)}, env)
        with np.errstate(all="ignore"):
            got = env["program3"](**data)
    except Exception as e:
        res.count("as_code-named:raised:%s" % type(e).__name__)
        return False
    ok = same(got, want)
    res.count("as_code-named:%s" % ("ok" if ok else "bad"))
    return ok


def has_nan_deep(v):
    if isinstance(v, tuple):
        return any(has_nan_deep(x) for x in v)
    return bool(np.isnan(np.asarray(v, dtype=float)).any())


def plan(tier, seed):
    n = 16 if tier == "quick" else 48
    return [{"name": "comp-%d" % i, "n": 300 if tier == "quick" else 1200, "timeout": 3000} for i in range(n)]


def binding(rng, inputs):
    data = {}
    for k, d in inputs.items():
        if d[0] == "real":
            data[k] = np.round(rng.uniform(-1.5, 1.5, size=d[1]), 2)
        else:
            data[k] = np.array(int(rng.integers(d[0])))
    return data


def ops_eval(ir, env):
    """the same computation expressed with funsor.ops on raw arrays (the function handed to trace_function)"""
    from funsor import ops

    k = ir[0]
    if k == "var":
        return env[ir[1]]
    if k == "num":
        return ir[1]
    if k == "ten":
        return ir[1]
    if k == "un":
        x = ops_eval(ir[3], env)
        p = dict(ir[2])
        op = ir[1]
        # parameters are passed positionally, by keyword, or mixed, in rotation (a traced program must honour all three)
        env["__calls__"] = style = env.get("__calls__", 0) + 1
        if op in ("sum", "prod", "amax", "amin", "logsumexp", "mean"):
            if style % 3 == 1:
                return getattr(ops, op)(x, axis=p.get("axis"), keepdims=p.get("keepdims", False))
            if style % 3 == 2:
                return getattr(ops, op)(x, p.get("axis"), keepdims=p.get("keepdims", False))
            return getattr(ops, op)(x, p.get("axis"), p.get("keepdims", False))
        if op in ("std", "var"):
            if style % 3 == 1:
                return getattr(ops, op)(x, axis=p.get("axis"), ddof=p.get("ddof", 0), keepdims=p.get("keepdims", False))
            if style % 3 == 2:
                return getattr(ops, op)(x, p.get("axis"), keepdims=p.get("keepdims", False), ddof=p.get("ddof", 0))
            return getattr(ops, op)(x, p.get("axis"), p.get("ddof", 0), p.get("keepdims", False))
        if op == "reshape":
            return ops.reshape(x, tuple(p["shape"]))
        if op == "getslice":
            return ops.getslice(x, p["index"])
        return getattr(ops, op)(x)
    if k == "bin":
        a, b = ops_eval(ir[3], env), ops_eval(ir[4], env)
        if ir[1] == "getitem":
            return ops.getitem(a, b)
        return getattr(ops, ir[1])(a, b)
    if k == "tuple":
        return tuple(ops_eval(e, env) for e in ir[1])
    raise Unsupported(k)


def same(a, b):
    if isinstance(a, tuple) or isinstance(b, tuple):
        return isinstance(a, tuple) and isinstance(b, tuple) and len(a) == len(b) and all(same(x, y) for x, y in zip(a, b))
    return close(np.asarray(a, dtype=float), np.asarray(b, dtype=float), rtol=1e-6)


def run_shard(shard, res):
    rng = shard_rng(shard["seed"], ID, shard["name"])
    riders = Riders(res)
    g = CGen(rng)
    for _ in range(shard["n"]):
        P = g.program(int(rng.integers(2, 6)))
        run_case(P, dict(g.vars), res, riders, rng)


def run_case(P, declared, res, riders, rng):
    import funsor
    from funsor.compiler import compile_funsor
    from funsor.interpretations import reflect
    from funsor.ops.tracer import trace_function

    from ..build import build

    try:
        p_inputs, p_out = typecheck(P)
    except (IllTyped, Unsupported) as e:
        res.count("discarded:%s" % type(e).__name__)
        return
    if not p_inputs:
        return
    riders.before(P)
    case = {"P": P}
    nops = sum(1 for k in kinds_in(P) if k.split(":")[0] in ("un", "bin"))
    consts = [k for k in kinds_in(P) if k == "ten"]
    oks = 0
    for route in ("eager", "reflect"):
        try:
            if route == "reflect":
                with reflect:
                    expr = build(P)
            else:
                expr = build(P)
            program = compile_funsor(expr)
        except Exception as e:
            res.count("compile:%s:declined:%s" % (route, type(e).__name__))
            continue
        array_consts = [c for c in program.constants if isinstance(c, np.ndarray) and c.ndim >= 1]
        try:
            code = program.as_code(name="program2")
            pickled = pickle.loads(pickle.dumps(program))
        except Exception as e:
            res.count("as_code-or-pickle:declined:%s" % type(e).__name__)
            code, pickled = None, None
        # the same printer with every constant printed as a name bound to the real constant: separates the recorded defect (array
        # constants are printed with str()) from any other defect of the printed source
        code_named = None
        if code is not None and array_consts:
            try:
                from funsor.ops.program import OpProgram

                shadow = OpProgram([_NamedConst(i) for i in range(len(program.constants))], program.inputs, program.operations)
                shadow.backend = program.backend
                code_named = shadow.as_code(name="program3")
            except Exception as e:
                res.count("as_code-named:declined:%s" % type(e).__name__)
        for b in range(3):
            data = binding(rng, p_inputs)
            riders.before(list(data.values()))
            with np.errstate(all="ignore"):
                want = ref_eval(P, {k: (int(v) if p_inputs[k][0] != "real" else v) for k, v in data.items()})
            if has_nan_deep(want):
                continue
            # substitution into the expression (the property's own comparator)
            try:
                with np.errstate(all="ignore"):
                    sub = expr(**{k: (funsor.Tensor(v) if p_inputs[k][0] == "real" else funsor.Tensor(v, dtype=p_inputs[k][0])) for k, v in data.items()})
                subv = tuple(np.asarray(a.data) for a in sub.args) if isinstance(sub, funsor.terms.Tuple) else np.asarray(sub.data)
                if not same(subv, want):
                    res.violation("compiler:substitution-differs-from-reference", "[%s] expr(**data) = %s, reference = %s | %s" % (route, short(subv), short(want), show(P)[:300]), case=case)
                    continue
            except Exception as e:
                res.count("substitution:declined:%s" % type(e).__name__)
            rdata = dict(reversed(list(data.items())))  # keyword order must not matter
            for label, thunk in (("compiled", lambda: program(**data)), ("compiled", lambda: program(**rdata)),
                                 ("pickled", (lambda: pickled(**rdata)) if pickled is not None else None)):
                if thunk is None:
                    continue
                try:
                    with np.errstate(all="ignore"):
                        got = thunk()
                except Exception as e:
                    res.count("%s:raised:%s" % (label, type(e).__name__))
                    res.violation("compiler:%s-raised" % label, "[%s] %s program raised %s: %s | %s" % (route, label, type(e).__name__, str(e)[:120], show(P)[:300]), case=case)
                    continue
                if not same(got, want):
                    res.violation("compiler:%s" % label, "[%s] %s program gives %s, substitution/reference gives %s at %s | %s" % (
                        route, label, short(got), short(want), short({k: v.tolist() for k, v in data.items()}, 150), show(P)[:300]), case=case)
                else:
                    res.count("%s:ok" % label)
                    oks += 1
            if code is not None:
                try:
                    env = {}
                    exec(code, None, env)
                    with np.errstate(all="ignore"):
                        got = env["program2"](**(data if b % 2 else dict(reversed(list(data.items())))))
                    if not same(got, want):
                        # an array constant printed with str() may still parse (e.g. "[-1.25 -1.5 ]" is the list [-2.75])
                        key = "as_code:array-constant" if named_ok(code_named, program, data, want, res) else "as_code"
                        res.violation("compiler:" + key, "[%s] exec(as_code()) gives %s, expected %s | %s" % (route, short(got), short(want), show(P)[:300]), case=case)
                    else:
                        res.count("as_code:ok")
                except Exception as e:
                    key = "as_code:array-constant" if named_ok(code_named, program, data, want, res) else "as_code:raised"
                    res.count("as_code:raised:%s" % type(e).__name__)
                    res.violation("compiler:" + key, "[%s] printed program cannot be executed: %s: %s | %s" % (route, type(e).__name__, str(e)[:100], show(P)[:300]), case=case)
        # missing / unexpected inputs are rejected
        data = binding(rng, p_inputs)
        k0 = sorted(p_inputs)[0]
        try:
            program(**{k: v for k, v in data.items() if k != k0})
            res.violation("compiler:missing-input-accepted", "program ran without input %r | %s" % (k0, show(P)[:300]), case=case)
        except ValueError:
            res.count("missing-input:rejected")
        except Exception as e:
            res.violation("compiler:missing-input-wrong-error", "missing input %r raised %s instead of ValueError | %s" % (k0, type(e).__name__, show(P)[:300]), case=case)
        try:
            program(**dict(data, zz_unexpected=np.array(1.0)))
            res.violation("compiler:unexpected-input-accepted", "program accepted an unexpected input | %s" % show(P)[:300], case=case)
        except ValueError:
            res.count("unexpected-input:rejected")
        except Exception as e:
            res.violation("compiler:unexpected-input-wrong-error", "unexpected input raised %s instead of ValueError | %s" % (type(e).__name__, show(P)[:300]), case=case)
    # traced function of the same computation (a python-level tuple is not an op result, so Tuple roots are not traced)
    try:
        if P[0] == "tuple":
            raise Unsupported("tuple root")
        data0 = binding(rng, p_inputs)
        fn = lambda **kw: ops_eval(P, kw)
        traced = trace_function(fn, data0, allow_constants=True)
        for b in range(2):
            data = binding(rng, p_inputs)
            with np.errstate(all="ignore"):
                want = ref_eval(P, {k: (int(v) if p_inputs[k][0] != "real" else v) for k, v in data.items()})
                got = traced(**data)
                direct = fn(**data)
            if has_nan_deep(want):
                continue
            if not same(got, direct) or not same(got, want):
                res.violation("tracer:value", "traced program gives %s, the function gives %s, reference %s | %s" % (short(got), short(direct), short(want), show(P)[:300]), case=case)
            else:
                res.count("traced:ok")
                oks += 1
    except Exception as e:
        res.count("traced:declined:%s" % type(e).__name__)
    nontriv = oks >= 2 and nops >= 3 and len(p_inputs) >= 2
    res.case(key=digest(P) if nontriv else None, nontrivial=nontriv,
             sample={"program": show(P)[:300], "inputs": {k: str(v) for k, v in p_inputs.items()}, "ops": nops} if nontriv else None)
    muts, rep = riders.after(None)
    for m in muts:
        res.violation("rider:mutation", "%s | %s" % (m, show(P)[:300]), case=case)
    if rep:
        res.violation("rider:stack", rep, case=case)


def workload(rng, n):
    from funsor.compiler import compile_funsor

    from ..build import build

    g = CGen(rng)
    for _ in range(n):
        P = g.program(int(rng.integers(2, 5)))
        try:
            inputs = typecheck(P)[0]
        except Exception:
            continue
        data = binding(rng, inputs)

        def thunk(P=P, data=data):
            expr = build(P)
            return compile_funsor(expr)(**data)

        yield "compile", [P, list(data.values())], thunk
