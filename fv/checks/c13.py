"""C13 Gaussian marginals, normalisers and integrals are exact.

Oracle: Schur complements and closed-form moments on the dense (P, eta, c) of fv/dense.py.
"""
import itertools
import math
from collections import OrderedDict

import numpy as np
import scipy.special

from ..common import close, digest, shard_rng, short
from ..dense import Dense, add_dense, random_gaussian, random_inputs, random_point
from ..monitors import Riders

ID = "C13"
LEVEL = "exploration"
RULE = ("full-rank Gaussians (same family as C12, rank >= dim) over 1-3 real inputs in any interleaving with 0-2 batch inputs: every "
        "non-empty subset of real inputs is marginalised (contiguous and interleaved blocks), in one step and in two steps in both orders, "
        "before and after evaluating the kept inputs; Gaussians whose rank lies between the dimension of the integrated block and the full dimension;  log_normalizer; plate sums; mixture reduction over integer inputs; Integrate against "
        "a Variable and against another Gaussian; moment matching of mixtures (mass, mean, covariance); rank-deficient blocks must raise. "
        "A case is (input signature, parametrisation, rank, operation, subset); non-trivial when compared at >=2 points; distinct by that tuple + data hash")
ASSUMPTIONS = ["fv/dense.py closed forms; numpy.linalg", "comparison at rtol 1e-5 on well-conditioned factors"]
MIN_NONTRIVIAL = {"quick": 3000, "thorough": 30000}
REQUIRED_COUNTERS = ["marginalize:ok", "marginalize-two-step:ok", "eval-then-marginalize:ok", "log_normalizer:ok", "plate-sum:ok", "mixture-reduce:ok",
                     "integrate-variable:ok", "integrate-gaussian:ok", "moment-matching:ok", "deficient:raised-as-required", "marginalize-block-rank:compared-ok", "log_normalizer-realigned:compared-ok"]


def plan(tier, seed):
    n = 16 if tier == "quick" else 64
    return [{"name": "marg-%d" % i, "n": 250 if tier == "quick" else 1000, "timeout": 3000} for i in range(n)]


def value_of(R, env):
    from ..oracle import value_at

    return value_at(R, env, allow_bind=True)[0]


def compare_fn(R, ref, inputs, rng, res, label, desc, case, npoints=3, must_complete=True):
    """R funsor, ref: env->float, inputs: name->dom of the expected result"""
    from ..ir import Unsupported
    from ..lift import dom_of
    from ..oracle import is_ground

    got_inputs = {k: dom_of(d) for k, d in R.inputs.items()}
    extra = [k for k in got_inputs if k not in inputs]
    if extra:
        res.violation("gaussian:%s:inputs" % label, "result has inputs %s outside %s | %s" % (extra, list(inputs), desc), case=case)
        return False
    for _ in range(npoints):
        env = random_point(rng, inputs)
        want = ref(env)
        try:
            got = value_of(R, env)
        except Unsupported as e:
            if must_complete:
                res.violation("gaussian:%s:incomplete" % label, "operation on a full-rank Gaussian did not complete (%s: %s) | %s" % (type(R).__name__, e, desc), case=case)
            else:
                res.count("%s:undecided" % label)
            return False
        except Exception as e:
            res.count("%s:undecided:%s" % (label, type(e).__name__))
            return False
        if not np.all(np.isfinite(want)):
            continue
        res.count("points-compared")
        if not close(got, want, rtol=1e-5, atol=1e-7):
            res.violation("gaussian:%s" % label, "at %s got %s, closed form %s | %s" % (
                short({k: (v.tolist() if isinstance(v, np.ndarray) else v) for k, v in env.items()}, 160), got, want, desc), case=case)
            return False
    res.count("%s:ok" % label)
    return True


def run_shard(shard, res):
    rng = shard_rng(shard["seed"], ID, shard["name"])
    riders = Riders(res)
    for i in range(shard["n"]):
        run_case(rng, res, riders, i)


def run_case(rng, res, riders, i):
    import funsor
    from funsor import ops
    from funsor.domains import Bint, Real, Reals
    from funsor.integrate import Integrate
    from funsor.interpretations import moment_matching
    from funsor.tensor import Tensor
    from funsor.terms import Variable

    from ..build import to_domain

    spec = random_gaussian(rng, full_rank=True)
    riders.before(list(spec.kwargs.values()))
    d = spec.dense
    inputs = spec.inputs
    reals = [k for k, dm in inputs.items() if dm[0] == "real"]
    ints = [k for k, dm in inputs.items() if dm[0] != "real"]
    desc = "G[%s; %s]" % (spec.label, ",".join("%s:%s" % (k, "R%s" % list(dm[1]) if dm[0] == "real" else "b%d" % dm[0]) for k, dm in inputs.items()))
    case = {"label": spec.label, "inputs": {k: list(map(str, v)) for k, v in inputs.items()}, "kwargs": spec.kwargs}
    sig = tuple(inputs.items())
    try:
        g = spec.build()
    except Exception as e:
        res.count("construct:declined:%s" % type(e).__name__)
        return
    riders.hold(g)
    oks = 0

    def attempt(label, thunk, ref, exp_inputs, must_complete=True, detail=""):
        nonlocal oks
        try:
            with np.errstate(all="ignore"):
                R = funsor.to_funsor(thunk())
        except Exception as e:
            if must_complete:
                res.violation("gaussian:%s:raised" % label, "operation on a full-rank Gaussian raised %s: %s | %s %s" % (type(e).__name__, str(e)[:120], desc, detail), case=case)
            else:
                res.count("%s:declined:%s" % (label, type(e).__name__))
            return None
        riders.hold(R)
        if compare_fn(R, ref, exp_inputs, rng, res, label, desc + " " + detail, case, must_complete=must_complete):
            res.count("%s:compared-ok" % label)
            oks += 1
        return R

    # (a) every non-empty subset of real inputs
    subsets = [s for r in range(1, len(reals) + 1) for s in itertools.combinations(reals, r)]
    for S in subsets:
        rest = OrderedDict((k, dm) for k, dm in inputs.items() if k not in S)
        if len(S) == len(reals):
            ref = lambda env: d.log_normalizer({k: int(env[k]) for k in ints})
        else:
            m = d.marginalize(S)
            ref = m
        attempt("marginalize", lambda S=S: g.reduce(ops.logaddexp, frozenset(S)), ref, rest, detail="reduce over %s" % (S,))
        # (f) two steps in both orders
        if len(S) >= 2:
            for first in (S[:1], S[1:]):
                second = tuple(k for k in S if k not in first)
                attempt("marginalize-two-step", lambda first=first, second=second: g.reduce(ops.logaddexp, frozenset(first)).reduce(ops.logaddexp, frozenset(second)),
                        ref, rest, detail="reduce %s then %s" % (first, second))
        # evaluate the kept inputs first, then marginalise: commutes with pointwise evaluation
        if len(S) < len(reals):
            kept = [k for k in reals if k not in S]
            pt = {k: np.round(rng.uniform(-1, 1, size=inputs[k][1]), 2) for k in kept}
            rest2 = OrderedDict((k, dm) for k, dm in rest.items() if k not in kept)
            attempt("eval-then-marginalize", lambda S=S, pt=pt: g(**{k: Tensor(v) for k, v in pt.items()}).reduce(ops.logaddexp, frozenset(S)),
                    lambda env, m=m, pt=pt: m({**env, **pt}), rest2, detail="evaluate %s then reduce %s" % (kept, S))
    # (a') rank between the dimension of the integrated block and the full dimension: the block's own precision is invertible, so
    # the marginal is the closed form although the Gaussian as a whole is rank-deficient (results may be improper in the kept inputs)
    proper = [S for S in subsets if len(S) < len(reals)]
    if proper:
        S = proper[int(rng.integers(len(proper)))]
        dim_s = sum(int(np.prod(inputs[k][1], dtype=int)) for k in S)
        if dim_s < d.dim:
            r = int(rng.integers(dim_s, d.dim))
            spec_r = random_gaussian(rng, inputs, rank=r, param="white_vec+prec_sqrt")
            dr = spec_r.dense
            off = dr.offsets()
            idx = np.concatenate([np.arange(*off[k]) for k in S]).astype(int)
            conds = [np.linalg.cond(dr.params(ie)[0][np.ix_(idx, idx)]) for ie in dr.int_points()]
            if spec_r.rank == r and max(conds) < 1e3:
                try:
                    gr = spec_r.build()
                except Exception as e:
                    gr = None
                    res.count("block-rank:construct-declined:%s" % type(e).__name__)
                if gr is not None:
                    riders.before(list(spec_r.kwargs.values()))
                    rest = OrderedDict((k, dm) for k, dm in inputs.items() if k not in S)
                    mr = dr.marginalize(S)
                    old_desc = desc
                    desc = "G[%s; same inputs] (rank %d, integrated block of dimension %d, total %d)" % (spec_r.label, r, dim_s, d.dim)
                    attempt("marginalize-block-rank", lambda: gr.reduce(ops.logaddexp, frozenset(S)), mr, rest, must_complete=False, detail="reduce over %s" % (S,))
                    if len(S) >= 2:
                        attempt("marginalize-block-rank", lambda: gr.reduce(ops.logaddexp, frozenset(S[:1])).reduce(ops.logaddexp, frozenset(S[1:])), mr, rest,
                                must_complete=False, detail="reduce %s then %s" % (S[:1], S[1:]))
                    desc = old_desc
            else:
                res.count("block-rank:skipped-ill-conditioned")
    # (b) log_normalizer
    from funsor.gaussian import Gaussian

    if isinstance(g, Gaussian):  # wide factors are returned as Gaussian + Tensor, which has no such attribute
        attempt("log_normalizer", lambda: g.log_normalizer, lambda env: d.log_normalizer({k: int(env[k]) for k in ints}), OrderedDict((k, inputs[k]) for k in ints))
    # (b') the same operations on a re-aligned Gaussian, after the original has already been used (results cached on the original must
    # not be carried over in the old order of the integer inputs)
    if isinstance(g, Gaussian) and len(inputs) >= 2:
        names = list(inputs)
        perm = [names[j] for j in rng.permutation(len(names))]
        if perm != names:
            try:
                h = g.align(tuple(perm))
            except Exception as e:
                h = None
                res.count("realigned:declined:%s" % type(e).__name__)
            if h is not None:
                attempt("log_normalizer-realigned", lambda: h.log_normalizer, lambda env: d.log_normalizer({k: int(env[k]) for k in ints}),
                        OrderedDict((k, inputs[k]) for k in ints), detail=".align(%s)" % ",".join(perm))
                attempt("marginalize-realigned", lambda: h.reduce(ops.logaddexp, frozenset(reals)), lambda env: d.log_normalizer({k: int(env[k]) for k in ints}),
                        OrderedDict((k, inputs[k]) for k in ints), detail=".align(%s) reduce all reals" % ",".join(perm))
    # (c) plate sum along each batch input
    for k in ints:
        size = inputs[k][0]
        rest = OrderedDict((n, dm) for n, dm in inputs.items() if n != k)
        attempt("plate-sum", lambda k=k: g.reduce(ops.add, k), lambda env, k=k, size=size: sum(d({**env, k: j}) for j in range(size)), rest, detail="sum over %s" % k)
    # (d) mixture reduction: logits + Gaussian reduced over integer inputs and all reals
    if ints:
        tshape = tuple(inputs[k][0] for k in ints)
        logits = np.round(rng.uniform(-1, 1, size=tshape), 2)
        t = Tensor(logits, OrderedDict((k, Bint[inputs[k][0]]) for k in ints))
        for r in range(1, len(ints) + 1):
            for I in itertools.combinations(ints, r):
                rest = OrderedDict((k, inputs[k]) for k in ints if k not in I)

                def mref(env, I=I):
                    vals = []
                    for pt in itertools.product(*[range(inputs[k][0]) for k in I]):
                        ie = {**{k: int(env[k]) for k in ints if k not in I}, **dict(zip(I, pt))}
                        vals.append(float(logits[tuple(ie[k] for k in ints)]) + d.log_normalizer(ie))
                    return float(scipy.special.logsumexp(vals))

                attempt("mixture-reduce", lambda I=I: (t + g).reduce(ops.logaddexp, frozenset(I) | frozenset(reals)), mref, rest, detail="mixture over %s" % (I,))
        # (g) moment matching preserves mass, mean and covariance of the mixture
        I = tuple(ints[: 1 + (i % len(ints))])
        try:
            with moment_matching:
                with np.errstate(all="ignore"):
                    mm = (t + g).reduce(ops.logaddexp, frozenset(I))
            moment_check(mm, I, ints, reals, inputs, logits, d, res, desc, case, rng)
            oks += 1
        except Exception as e:
            res.count("moment-matching:declined:%s" % type(e).__name__)
    # (e) Integrate against a variable / another Gaussian
    if len(reals) == 1:
        k = reals[0]
        rest = OrderedDict((n, inputs[n]) for n in ints)

        def iref(env, k=k):
            ie = {n: int(env[n]) for n in ints}
            logz, mean, cov = d.moments(ie)
            return math.exp(logz) * mean.reshape(inputs[k][1])

        attempt("integrate-variable", lambda k=k: Integrate(g, Variable(k, to_domain(inputs[k])), frozenset([Variable(k, to_domain(inputs[k]))])), iref, rest, must_complete=False)
        # the same against a mixture (logits + Gaussian), also after some integer inputs were reduced (which stays a lazy contraction):
        # sum over the reduced components of exp(logit) * Z * mean
        if ints and inputs[k][1] == ():
            logits2 = np.round(rng.uniform(-1, 1, size=tuple(inputs[n][0] for n in ints)), 2)
            t2 = Tensor(logits2, OrderedDict((n, Bint[inputs[n][0]]) for n in ints))
            for r in range(0, len(ints) + 1):
                for I in itertools.combinations(ints, r):
                    rest_i = OrderedDict((n, inputs[n]) for n in ints if n not in I)

                    def miref(env, I=I):
                        tot = 0.0
                        for pt in itertools.product(*[range(inputs[n][0]) for n in I]):
                            ie = {**{n: int(env[n]) for n in ints if n not in I}, **dict(zip(I, pt))}
                            logz, mean, cov = d.moments(ie)
                            tot += math.exp(float(logits2[tuple(ie[n] for n in ints)]) + logz) * float(mean.reshape(()))
                        return tot

                    def mthunk(I=I, k=k):
                        mix = (t2 + g).reduce(ops.logaddexp, frozenset(I)) if I else (t2 + g)
                        return Integrate(mix, Variable(k, Real), frozenset([Variable(k, Real)]))

                    attempt("integrate-variable-mixture", mthunk, miref, rest_i, must_complete=False, detail="mixture reduced over %s" % (I,))
    sub = OrderedDict((k, inputs[k]) for k in inputs if k in ints or rng.random() < 0.7)
    if rng.random() < 0.6:
        # the integrand lists (some of) the same inputs in another order
        ks = list(sub)
        sub = OrderedDict((ks[i], sub[ks[i]]) for i in rng.permutation(len(ks)))
    if any(dm[0] == "real" for dm in sub.values()):
        spec2 = random_gaussian(rng, sub)
        h = spec2.build()
        d2 = spec2.dense
        hreals = [k for k, dm in sub.items() if dm[0] == "real"]
        off = d.offsets()
        hidx = np.concatenate([np.arange(*off[k]) for k in hreals]).astype(int)

        def gref(env):
            ie = {n: int(env[n]) for n in ints}
            logz, mean, cov = d.moments(ie)
            P2, e2, c2 = d2.params({n: ie[n] for n, _ in d2.int_inputs})
            mu = mean[hidx]
            S = cov[np.ix_(hidx, hidx)]
            return math.exp(logz) * (-0.5 * np.trace(P2 @ S) - 0.5 * mu @ P2 @ mu + mu @ e2 + c2)

        rvars = frozenset(Variable(k, to_domain(inputs[k])) for k in reals)
        attempt("integrate-gaussian", lambda: Integrate(g, h, rvars), gref, OrderedDict((n, inputs[n]) for n in ints), must_complete=False, detail="integrand G[%s]" % spec2.label)
        # (e') the contraction of two mixtures built directly (cnf.eager_contraction_gaussian adds the factors before reducing): every real
        # input of the sum and a subset of the integer inputs are reduced; closed form from the dense sum of the two quadratic forms
        if ints:
            from funsor.cnf import Contraction

            from ..dense import add_dense

            dsum = add_dense(d, d2)
            la = np.round(rng.uniform(-1, 1, size=tuple(inputs[n][0] for n in ints)), 2)
            lb = np.round(rng.uniform(-1, 1, size=tuple(inputs[n][0] for n in ints[::-1])), 2)
            ta = Tensor(la, OrderedDict((n, Bint[inputs[n][0]]) for n in ints))
            tb = Tensor(lb, OrderedDict((n, Bint[inputs[n][0]]) for n in ints[::-1]))
            I = tuple(n for n in ints if rng.random() < 0.5)
            rest_c = OrderedDict((n, inputs[n]) for n in ints if n not in I)

            def cref(env, I=I):
                vals = []
                for pt in itertools.product(*[range(inputs[n][0]) for n in I]):
                    ie = {**{n: int(env[n]) for n in ints if n not in I}, **dict(zip(I, pt))}
                    vals.append(float(la[tuple(ie[n] for n in ints)]) + float(lb[tuple(ie[n] for n in ints[::-1])]) + dsum.log_normalizer(ie))
                return float(scipy.special.logsumexp(vals))

            cvars = rvars | frozenset(Variable(n, Bint[inputs[n][0]]) for n in I)
            attempt("contract-two-mixtures", lambda: Contraction(ops.logaddexp, ops.add, cvars, ta + g, tb + h), cref, rest_c, must_complete=False,
                    detail="second mixture G[%s], reduced %s" % (spec2.label, sorted(v.name for v in cvars)))
    # (e'') sums of exponentials: exp(g) summed over real inputs is the exponential of the marginal (joint.eager_reduce_exp), also for a
    # mixture summed over integer inputs as well
    S = subsets[int(rng.integers(len(subsets)))]
    rest_e = OrderedDict((k, dm) for k, dm in inputs.items() if k not in S)
    if len(S) == len(reals):
        eref = lambda env: math.exp(d.log_normalizer({k: int(env[k]) for k in ints}))
    else:
        m_e = d.marginalize(S)
        eref = lambda env, m_e=m_e: math.exp(m_e(env))
    attempt("exp-sum", lambda S=S: g.exp().reduce(ops.add, frozenset(S)), eref, rest_e, must_complete=False, detail="exp(g) summed over %s" % (S,))
    if ints:
        le = np.round(rng.uniform(-1, 1, size=tuple(inputs[n][0] for n in ints)), 2)
        te = Tensor(le, OrderedDict((n, Bint[inputs[n][0]]) for n in ints))
        Ie = tuple(ints[: 1 + int(rng.integers(len(ints)))])

        def meref(env):
            tot = 0.0
            for pt in itertools.product(*[range(inputs[n][0]) for n in Ie]):
                ie = {**{n: int(env[n]) for n in ints if n not in Ie}, **dict(zip(Ie, pt))}
                tot += math.exp(float(le[tuple(ie[n] for n in ints)]) + d.log_normalizer(ie))
            return tot

        attempt("exp-sum-mixture", lambda: (te + g).exp().reduce(ops.add, frozenset(Ie) | frozenset(reals)), meref,
                OrderedDict((n, inputs[n]) for n in ints if n not in Ie), must_complete=False, detail="exp(logits + g) summed over %s and all reals" % (Ie,))
    # (h) too little information must raise instead of returning a number
    spec3 = random_gaussian(rng, inputs, rank=max(0, d.dim - 1 - int(rng.integers(0, 2))), param="white_vec+prec_sqrt")
    try:
        g3 = spec3.build()
        res.count("deficient:attempted")
        try:
            with np.errstate(all="ignore"):
                r3 = g3.reduce(ops.logaddexp, frozenset(reals))
            r3 = funsor.to_funsor(r3)
            from ..oracle import is_ground

            if is_ground(r3) and np.all(np.isfinite(np.asarray(r3.data, dtype=float))):
                res.violation("gaussian:deficient-no-error", "marginalising all real inputs of a rank-%d Gaussian of dimension %d returned the finite value %s instead of raising | %s" % (
                    spec3.rank, d.dim, short(np.asarray(r3.data).tolist()), desc), case=case)
            else:
                res.count("deficient:non-finite-or-lazy")
        except Exception:
            res.count("deficient:raised-as-required")
    except Exception as e:
        res.count("deficient:construct-declined:%s" % type(e).__name__)
    nontriv = oks >= 2
    res.case(key=digest((spec.label, sig, list(spec.kwargs.values())[0])) if nontriv else None, nontrivial=nontriv,
             sample={"gaussian": desc[:300], "checks_ok": oks, "real_subsets": len(subsets)} if nontriv else None)
    muts, rep = riders.after(None)
    for m in muts:
        res.violation("rider:mutation", "%s | %s" % (m, desc), case=case)
    if rep:
        res.violation("rider:stack", rep, case=case)


def moment_check(mm, I, ints, reals, inputs, logits, d, res, desc, case, rng):
    """mm: moment-matched result; must be (discrete + Gaussian) with the mixture's mass, mean and covariance"""
    from ..lift import lift
    from ..ir import Unsupported

    ir = lift(mm)
    gauss = [t for t in ((ir,) if ir[0] == "gauss" else ir[4] if ir[0] == "contr" else ()) if t[0] == "gauss"]
    tens = [t for t in (ir[4] if ir[0] == "contr" else ()) if t[0] in ("ten", "num")]
    if len(gauss) != 1:
        res.count("moment-matching:not-a-single-gaussian")
        return
    _, w, Q, ginputs = gauss[0]
    gints = [n for n, dm in ginputs if dm[0] != "real"]
    greals = [n for n, dm in ginputs if dm[0] == "real"]
    if greals != reals and sorted(greals) != sorted(reals):
        res.violation("gaussian:moment-matching:inputs", "moment-matched Gaussian has real inputs %s, expected %s | %s" % (greals, reals, desc), case=case)
        return
    off = d.offsets()
    perm = np.concatenate([np.arange(*off[k]) for k in greals]).astype(int)
    kept = [k for k in ints if k not in I]
    for pt in itertools.product(*[range(inputs[k][0]) for k in kept]):
        kenv = dict(zip(kept, pt))
        # mixture moments
        logw, mus, covs = [], [], []
        for ipt in itertools.product(*[range(inputs[k][0]) for k in I]):
            ie = {**kenv, **dict(zip(I, ipt))}
            lz, mu, cov = d.moments(ie)
            logw.append(float(logits[tuple(ie[k] for k in ints)]) + lz)
            mus.append(mu[perm])
            covs.append(cov[np.ix_(perm, perm)])
        logtot = float(scipy.special.logsumexp(logw))
        p = np.exp(np.array(logw) - logtot)
        mean = sum(pi * m for pi, m in zip(p, mus))
        cov = sum(pi * (c + np.outer(m - mean, m - mean)) for pi, m, c in zip(p, mus, covs))
        # result moments from its own parameters
        idx = tuple(kenv[n] for n in gints)
        Qi, wi = np.asarray(Q)[idx], np.asarray(w)[idx]
        P = Qi @ Qi.T
        eta = Qi @ wi
        c0 = -0.5 * wi @ wi
        rcov = np.linalg.inv(P)
        rmean = rcov @ eta
        sign, logdet = np.linalg.slogdet(P)
        rlogz = c0 + 0.5 * eta @ rmean + 0.5 * len(eta) * math.log(2 * math.pi) - 0.5 * logdet
        for t in tens:
            if t[0] == "num":
                rlogz += float(t[1])
            else:
                rlogz += float(np.asarray(t[1])[tuple(kenv[n] for n in t[2])])
        res.count("points-compared")
        for what, got, want in (("total mass (log)", rlogz, logtot), ("mean", rmean, mean), ("covariance", rcov, cov)):
            if not close(got, want, rtol=1e-5, atol=1e-7):
                res.violation("gaussian:moment-matching", "moment matching over %s changed the %s at %s: got %s expected %s | %s" % (
                    I, what, kenv, short(np.asarray(got).tolist(), 100), short(np.asarray(want).tolist(), 100), desc), case=case)
                return
    res.count("moment-matching:ok")


def workload(rng, n):
    from funsor import ops

    for _ in range(n):
        spec = random_gaussian(rng, full_rank=True)
        reals = [k for k, dm in spec.inputs.items() if dm[0] == "real"]

        def thunk(spec=spec, reals=reals, seed=int(rng.integers(1 << 30))):
            r = np.random.default_rng(seed)
            g = spec.build()
            S = [k for k in reals if r.random() < 0.6] or reals[:1]
            return g.reduce(ops.logaddexp, frozenset(S))

        yield "gaussian-marginalize", list(spec.kwargs.values()), thunk
