"""C14 Point masses and samples: Delta semantics and mass-preserving sampling.

Oracles: pointwise Delta semantics; exact mass identity logsumexp_sampled(sample) == logsumexp_sampled(original) per batch element and
particle; support and range of sampled points; re-seeding reproduces samples; reparametrised Gaussian samples are affine in the
noise with the Gaussian's mean and covariance (dense closed forms).
"""
import itertools
import math
from collections import OrderedDict

import numpy as np
import scipy.special

from ..common import close, digest, shard_rng, short
from ..dense import random_gaussian, random_point
from ..monitors import Riders

ID = "C14"
LEVEL = "exploration"
RULE = ("(A) Delta(name, point, log_density) with number / batched tensor / lazy points evaluated at equal and unequal values; (B) unit-mass "
        "Delta added to a funsor and reduced, or integrated against it; (C) discrete tensors over 1-3 inputs of sizes 1-4 incl. -inf entries, "
        "every non-empty subset of sampled variables, 0-2 sample inputs, several seeds: inputs/output, range and support of points, mass "
        "identity per batch element and particle, reproducibility under re-seeding; (D) full-rank Gaussians: eager samples (mass identity vs "
        "closed-form marginal), mixtures (logits + Gaussian) sampled over all reals and a subset of integer inputs, and reparametrised samples (affine in noise, mean and covariance). A case is (part, structure, sampled set, "
        "sample inputs, seed); non-trivial when a mass/affine identity was checked on >=2 elements; distinct by that tuple + data hash")
ASSUMPTIONS = ["numpy global RNG is the numpy backend's only random state", "non-unit-mass Deltas are used for point evaluation only"]
MIN_NONTRIVIAL = {"quick": 3000, "thorough": 30000}
REQUIRED_COUNTERS = ["delta-point:ok", "delta-reduce:ok", "delta-integrate:ok", "delta-integrate-weighted:ok", "delta-multi-partial-reduce:ok", "tensor-sample:mass-ok", "tensor-sample:reseed-ok", "gaussian-sample:mass-ok", "gaussian-reparam:affine-ok", "mixture-sample:mass-ok"]


def plan(tier, seed):
    n = 16 if tier == "quick" else 64
    return [{"name": "c14-%d" % i, "n": 150 if tier == "quick" else 600, "timeout": 3000} for i in range(n)]


def run_shard(shard, res):
    rng = shard_rng(shard["seed"], ID, shard["name"])
    riders = Riders(res)
    for i in range(shard["n"]):
        for part in (part_delta, part_tensor_sample, part_gaussian_sample, part_mixture_sample):
            try:
                part(rng, res, riders, i)
            finally:
                muts, rep = riders.after(None)
                for m in muts:
                    res.violation("rider:mutation", "%s in %s" % (m, part.__name__))
                if rep:
                    res.violation("rider:stack", rep)


def val(R, env):
    from ..oracle import value_at

    return value_at(R, env)[0]


# ---------------------------------------------------------------------------
def part_delta(rng, res, riders, i):
    import funsor
    from funsor import ops
    from funsor.delta import Delta
    from funsor.domains import Bint, Real, Reals
    from funsor.integrate import Integrate
    from funsor.tensor import Tensor
    from funsor.terms import Number, Variable

    # (A) point evaluation
    shape = [(), (2,), (3,)][int(rng.integers(3))]
    bsz = int(rng.integers(1, 4))
    batched = rng.random() < 0.6
    pdata = np.round(rng.uniform(-1, 1, size=((bsz,) if batched else ()) + shape), 1)
    ld = np.round(rng.uniform(-1, 1, size=(bsz,) if batched and rng.random() < 0.7 else ()), 2)
    riders.before([pdata, ld])
    binp = OrderedDict(b=Bint[bsz])
    point = Tensor(pdata, binp if batched else OrderedDict())
    log_density = Tensor(ld, binp if ld.shape else OrderedDict())
    d = Delta("x", point, log_density)
    case = {"point": pdata, "log_density": ld}
    ok = 0
    for b in range(bsz):
        p = pdata[b] if batched else pdata
        l = float(ld[b]) if ld.shape else float(ld)
        for equal in (True, False):
            v = p.copy() if equal else p + (0.5 if rng.random() < 0.5 else np.eye(1, max(1, p.size), int(rng.integers(max(1, p.size)))).reshape(-1)[: p.size].reshape(p.shape) * 0.5 + (0.0 if p.size > 1 else 0.5))
            if not equal and np.array_equal(v, p):
                v = p + 1.0
            want = l if equal else -math.inf
            try:
                subs = {"x": Tensor(np.asarray(v, dtype=float))}
                if batched or ld.shape:
                    subs["b"] = b
                r = d(**{k: s for k, s in subs.items() if k in d.inputs})
                got = float(np.asarray(funsor.to_funsor(r).data)) if not funsor.to_funsor(r).inputs else None
            except Exception as e:
                res.count("delta-point:declined:%s" % type(e).__name__)
                continue
            if got is None:
                res.count("delta-point:lazy")
                continue
            if not close(got, want):
                res.violation("delta:point", "Delta(x=%s, ld=%s) evaluated at x=%s gives %s, expected %s" % (short(p.tolist()), l, short(np.asarray(v).tolist()), got, want), case=case)
            else:
                res.count("delta-point:ok")
                ok += 1
            # structural value too
            try:
                env = {"x": np.asarray(v, dtype=float), "b": b}
                g2 = val(d, {k: env[k] for k in d.inputs})
                if not close(g2, want):
                    res.violation("delta:point-structural", "harness/lift disagreement on Delta value: %s vs %s" % (g2, want), case=case)
            except Exception:
                res.count("delta-point:structural-undecided")
    res.case(key=digest(("delta-point", shape, bsz, batched, pdata)), nontrivial=ok >= 2, sample={"part": "A", "point_shape": list(shape), "batched": batched})

    # (B) unit-mass Delta: reduce / integrate evaluate the funsor at the point
    n = int(rng.integers(2, 5))
    f_int = Tensor(np.round(rng.uniform(-1, 1, size=(n, bsz)), 2), OrderedDict(v=Bint[n], b=Bint[bsz]))
    pidx = rng.integers(0, n, size=(bsz,))
    for form in ("number", "batched"):
        if form == "number":
            dp = Delta("v", Number(int(pidx[0]), n))
            want = f_int.data[int(pidx[0]), :]
        else:
            dp = Delta("v", Tensor(pidx, OrderedDict(b=Bint[bsz]), n))
            want = f_int.data[pidx, np.arange(bsz)]
        for label, thunk in (("delta-reduce", lambda: (dp + f_int).reduce(ops.logaddexp, "v")),
                             ("delta-reduce-flipped", lambda: (f_int + dp).reduce(ops.logaddexp, "v")),
                             ("delta-integrate", lambda: Integrate(dp, f_int, frozenset([Variable("v", Bint[n])])))):
            try:
                r = funsor.to_funsor(thunk())
                got = r.align(("b",)).data if "b" in r.inputs else np.broadcast_to(r.data, (bsz,))
            except Exception as e:
                res.count("%s:declined:%s" % (label.split("-flipped")[0], type(e).__name__))
                continue
            lab = label.replace("-flipped", "")
            if not close(got, want):
                res.violation("delta:%s" % lab, "%s with a unit-mass Delta at %s gives %s, f at the point is %s" % (label, pidx.tolist() if form == "batched" else int(pidx[0]), short(np.asarray(got).tolist()), short(want.tolist())),
                              case={"f": f_int.data, "point": pidx, "form": form})
            else:
                res.count("%s:ok" % lab)
        # reducing over the Delta's variable and a batch input at once: logsumexp over the batch of f at the point; for the bare
        # unit-mass Delta the log of the batch size
        both = [("delta-reduce-both", lambda: (dp + f_int).reduce(ops.logaddexp, frozenset(["v", "b"])), float(scipy.special.logsumexp(want)))]
        if "b" in dp.inputs:
            both.append(("delta-reduce-both", lambda: dp.reduce(ops.logaddexp, frozenset(["v", "b"])), math.log(bsz)))
        for lab2, thunk2, target in both:
            try:
                r2 = funsor.to_funsor(thunk2())
            except Exception as e:
                res.count("%s:declined:%s" % (lab2, type(e).__name__))
                continue
            if r2.inputs:
                if not isinstance(r2, (Tensor, Number)):
                    res.count("%s:lazy" % lab2)
                    continue
                res.violation("delta:%s" % lab2, "reducing over {v, b} left inputs %s" % list(r2.inputs), case={"f": f_int.data, "point": pidx, "form": form})
                continue
            got2 = float(r2.data)
            if not close(got2, target):
                res.violation("delta:%s" % lab2, "reduce over {v, b} gives %s, expected %s" % (got2, target), case={"f": f_int.data, "point": pidx, "form": form})
            else:
                res.count("%s:ok" % lab2)
        # a weighted point mass (the form of a sample: Delta + log-weight) as measure: integrating over the Delta's variable only, and
        # over a batch / particle input as well, is the weighted evaluation at the point
        wdata = np.round(rng.uniform(-1, 1, size=(bsz,)), 2)
        w = Tensor(wdata, OrderedDict(b=Bint[bsz]))
        per_b = np.exp(wdata) * want
        for label, rv, expect in (("delta-integrate-weighted", frozenset([Variable("v", Bint[n])]), per_b),
                                  ("delta-integrate-weighted", frozenset([Variable("v", Bint[n]), Variable("b", Bint[bsz])]), per_b.sum())):
            for order in (0, 1):
                try:
                    measure = (dp + w) if order == 0 else (w + dp)
                    r = funsor.to_funsor(Integrate(measure, f_int, rv))
                    if r.inputs and set(r.inputs) != {"b"}:
                        res.count("%s:lazy" % label)
                        continue
                    got = r.data if r.inputs else float(r.data)
                except Exception as e:
                    res.count("%s:declined:%s" % (label, type(e).__name__))
                    continue
                if not close(got, expect):
                    res.violation("delta:%s" % label, "Integrate(Delta(v=%s)+w, f, %s) gives %s, expected %s" % (
                        pidx.tolist() if form == "batched" else int(pidx[0]), sorted(v.name for v in rv), short(np.asarray(got).tolist()), short(np.asarray(expect).tolist())),
                        case={"f": f_int.data, "point": pidx, "form": form, "w": wdata})
                else:
                    res.count("%s:ok" % label)
    # a two-variable point mass batched over b, reduced over one of its variables and the batch input at once: at every value of the
    # kept variable the result is the log of the number of batch elements whose point has that value
    nu, nv = int(rng.integers(2, 4)), int(rng.integers(2, 4))
    pu = rng.integers(0, nu, size=(bsz,))
    pv = rng.integers(0, nv, size=(bsz,))
    try:
        DD = Delta("u", Tensor(pu, OrderedDict(b=Bint[bsz]), nu)) + Delta("v", Tensor(pv, OrderedDict(b=Bint[bsz]), nv))
        rr = funsor.to_funsor(DD.reduce(ops.logaddexp, frozenset(["u", "b"])))
        if set(rr.inputs) - {"v"}:
            res.violation("delta:multi-partial-reduce", "reducing a two-variable Delta over {u, b} left inputs %s" % list(rr.inputs), case={"pu": pu, "pv": pv})
        else:
            okm = True
            for val in range(nv):
                x = funsor.to_funsor(rr(v=val)) if rr.inputs else rr
                cnt = int(np.sum(pv == val))
                target = math.log(cnt) if cnt else -math.inf
                got = float(x.data)
                if not (close(got, target) or (target == -math.inf and got == -math.inf)):
                    okm = False
                    res.violation("delta:multi-partial-reduce", "two-variable Delta reduced over {u, b} at v=%d gives %s, expected %s (points v=%s)" % (val, got, target, pv.tolist()), case={"pu": pu, "pv": pv})
                    break
            if okm:
                res.count("delta-multi-partial-reduce:ok")
    except Exception as e:
        res.count("delta-multi-partial-reduce:declined:%s" % type(e).__name__)
    # real-valued variable: f is a lazy function of a real x
    xpt = np.round(rng.uniform(-1, 1, size=()), 2)
    fx = Variable("x", Real) * 2.0 + Tensor(np.round(rng.uniform(-1, 1, size=(bsz,)), 2), OrderedDict(b=Bint[bsz]))
    try:
        r = funsor.to_funsor((Delta("x", Tensor(xpt)) + fx).reduce(ops.logaddexp, "x"))
        want = 2.0 * float(xpt) + fx(x=0.0).data
        got = r.data if "b" in r.inputs else np.broadcast_to(r.data, (bsz,))
        if not close(got, want):
            res.violation("delta:delta-reduce", "real-valued Delta reduce gives %s expected %s" % (short(np.asarray(got).tolist()), short(want.tolist())), case={"x": xpt})
        else:
            res.count("delta-reduce:ok")
    except Exception as e:
        res.count("delta-reduce:declined:%s" % type(e).__name__)


# ---------------------------------------------------------------------------
def sample_structure(s):
    """(deltas: {name: point funsor}, other terms) of a sample funsor"""
    from funsor.cnf import Contraction
    from funsor.delta import Delta

    terms = list(s.terms) if isinstance(s, Contraction) else [s]
    deltas, rest = {}, []
    for t in terms:
        if isinstance(t, Delta):
            for name, (point, ld) in t.terms:
                deltas[name] = (point, ld)
        else:
            rest.append(t)
    return deltas, rest


def part_tensor_sample(rng, res, riders, i):
    import funsor
    from funsor import ops
    from funsor.domains import Bint
    from funsor.tensor import Tensor

    names = ["a", "b", "c"][: int(rng.integers(1, 4))]
    sizes = {n: int(rng.integers(1, 5)) for n in names}
    order = list(names)
    rng.shuffle(order)
    data = np.round(rng.uniform(-2, 2, size=tuple(sizes[n] for n in order)), 2)
    subsets = [s for r in range(1, len(names) + 1) for s in itertools.combinations(names, r)]
    S = subsets[int(rng.integers(len(subsets)))]
    if rng.random() < 0.3:
        # one finite cell per batch element: the sampled point is then determined, so any wrong decoding of the joint draw shows
        axes_s = [order.index(n) for n in S]
        keep = np.zeros(data.shape, dtype=bool)
        bshape = [data.shape[ax] for ax in range(data.ndim) if ax not in axes_s]
        baxes = [ax for ax in range(data.ndim) if ax not in axes_s]
        for bidx in itertools.product(*[range(z) for z in bshape]):
            cell = [0] * data.ndim
            for ax, v in zip(baxes, bidx):
                cell[ax] = v
            for ax in axes_s:
                cell[ax] = int(rng.integers(data.shape[ax]))
            keep[tuple(cell)] = True
        data[~keep] = -np.inf
        res.count("tensor-sample:one-hot")
    else:
        mask = rng.random(data.shape) < 0.2
        data[mask] = -np.inf
    riders.before(data)
    t = Tensor(data, OrderedDict((n, Bint[sizes[n]]) for n in order))
    nsi = int(rng.integers(0, 3))
    si = OrderedDict((n, Bint[int(rng.integers(1, 4))]) for n in ["p", "q"][:nsi])
    if rng.random() < 0.1 and nsi:
        si = OrderedDict([("p", Bint[2]), (names[0], Bint[sizes[names[0]]])])  # a sample input that collides with an input is ignored
    seed = int(rng.integers(1 << 30))
    case = {"data": data, "order": order, "sampled": list(S), "sample_inputs": {k: v.size for k, v in si.items()}, "seed": seed}
    desc = "Tensor[%s].sample(%s, %s) seed=%d" % (",".join("%s%d" % (n, sizes[n]) for n in order), list(S), {k: v.size for k, v in si.items()}, seed)
    try:
        np.random.seed(seed)
        with np.errstate(all="ignore"):
            s = t.sample(frozenset(S), si)
        np.random.seed(seed)
        with np.errstate(all="ignore"):
            s2 = t.sample(frozenset(S), si)
    except Exception as e:
        res.count("tensor-sample:declined:%s" % type(e).__name__)
        res.case()
        return
    riders.hold(s)
    eff_si = OrderedDict((k, v) for k, v in si.items() if k not in t.inputs)
    want_inputs = dict(t.inputs)
    want_inputs.update(eff_si)
    if dict(s.inputs) != want_inputs or s.output != t.output:
        res.violation("sample:tensor-type", "sample has inputs %s output %s; expected inputs %s output %s | %s" % (dict(s.inputs), s.output, want_inputs, t.output, desc), case=case)
        return
    deltas, rest = sample_structure(s)
    if set(deltas) != set(S):
        res.violation("sample:tensor-structure", "sample binds %s, expected %s | %s" % (sorted(deltas), sorted(S), desc), case=case)
        return
    batch = [n for n in order if n not in S]
    sb_names = list(eff_si) + batch
    sb_sizes = [eff_si[n].size if n in eff_si else sizes[n] for n in sb_names]
    # points: in range, inside the support
    pts = {}
    for name, (point, ld) in deltas.items():
        if not isinstance(point, Tensor) or (not isinstance(ld, funsor.terms.Number) and not isinstance(ld, Tensor)):
            res.count("tensor-sample:unexpected-point-type")
            return
        arr = np.broadcast_to(point.align(tuple(n for n in sb_names if n in point.inputs)).data.reshape(
            tuple(sz if n in point.inputs else 1 for n, sz in zip(sb_names, sb_sizes))), tuple(sb_sizes))
        if arr.min() < 0 or arr.max() >= sizes[name]:
            res.violation("sample:tensor-range", "sampled values of %s outside [0,%d): %s | %s" % (name, sizes[name], short(arr.tolist()), desc), case=case)
            return
        pts[name] = arr
    # expected mass per batch element (numpy), broadcast over particles
    axes = tuple(order.index(n) for n in S)
    with np.errstate(all="ignore"):
        mass = scipy.special.logsumexp(data, axis=axes)  # over batch dims in `order` minus S
    mass_names = [n for n in order if n not in S]
    elems = 0
    bad = None
    for idx in itertools.product(*[range(z) for z in sb_sizes]):
        env = dict(zip(sb_names, idx))
        full = dict(env)
        for name in S:
            full[name] = int(pts[name][idx])
        m = float(mass[tuple(env[n] for n in mass_names)]) if mass_names else float(mass)
        dens = float(data[tuple(full[n] for n in order)])
        elems += 1
        if m > -math.inf and dens == -math.inf:
            bad = ("sample:tensor-support", "sampled point %s has zero original density (batch element %s)" % ({n: full[n] for n in S}, env))
            break
        # value of the sample at its own point = mass; mass identity via the structural value
        try:
            got = val(s, full)
        except Exception as e:
            res.count("tensor-sample:undecided:%s" % type(e).__name__)
            return
        if not close(got, m) and not (m == -math.inf and (got == -math.inf or np.isnan(got))):
            bad = ("sample:tensor-mass", "mass at batch element/particle %s is %s, original mass %s" % (env, got, m))
            break
        # elsewhere the sample is -inf
        other = dict(full)
        n0 = S[0]
        if sizes[n0] > 1:
            other[n0] = (full[n0] + 1) % sizes[n0]
            try:
                g2 = val(s, other)
                if g2 != -math.inf and not np.isnan(g2):
                    bad = ("sample:tensor-mass", "sample is %s away from its point (expected -inf)" % g2)
                    break
            except Exception:
                pass
    if bad:
        res.violation(bad[0], "%s | %s" % (bad[1], desc), case=case)
    else:
        res.count("tensor-sample:mass-ok")
    # mass through funsor's own reduction
    try:
        with np.errstate(all="ignore"):
            red = funsor.to_funsor(s.reduce(ops.logaddexp, frozenset(S)))
        for idx in itertools.product(*[range(z) for z in sb_sizes]):
            env = dict(zip(sb_names, idx))
            m = float(mass[tuple(env[n] for n in mass_names)]) if mass_names else float(mass)
            got = val(red, {k: env[k] for k in red.inputs})
            if not close(got, m) and not (m == -math.inf and np.isnan(got)):
                res.violation("sample:tensor-mass-reduce", "sample.reduce(logaddexp, sampled) at %s is %s, original mass %s | %s" % (env, got, m, desc), case=case)
                break
        else:
            res.count("tensor-sample:reduce-ok")
    except Exception as e:
        res.count("tensor-sample:reduce-declined:%s" % type(e).__name__)
    # deterministic function of the random state
    d2, _ = sample_structure(s2)
    same = set(d2) == set(deltas) and all(np.array_equal(np.asarray(d2[n][0].data), np.asarray(deltas[n][0].data)) for n in deltas)
    if not same:
        res.violation("sample:not-reproducible", "re-seeding numpy's RNG with %d did not reproduce the sample | %s" % (seed, desc), case=case)
    else:
        res.count("tensor-sample:reseed-ok")
    res.case(key=digest(("tensor-sample", tuple(order), tuple(sorted(sizes.items())), S, tuple(eff_si), seed, data)), nontrivial=bad is None and elems >= 2,
             sample={"part": "C", "tensor_inputs": {n: sizes[n] for n in order}, "sampled": list(S), "sample_inputs": {k: v.size for k, v in si.items()}, "seed": seed})


# ---------------------------------------------------------------------------
def part_mixture_sample(rng, res, riders, i):
    """a mixture (logits over the integer inputs + Gaussian) sampled jointly over all its real inputs and a subset of its integer
    inputs (size-1 inputs included): signature and per-particle mass identity against the dense closed form"""
    import funsor
    from funsor import ops
    from funsor.domains import Bint
    from funsor.tensor import Tensor

    from ..build import to_domain

    spec = random_gaussian(rng, full_rank=True, param="white_vec+prec_sqrt")
    d = spec.dense
    inputs = spec.inputs
    reals = [k for k, dm in inputs.items() if dm[0] == "real"]
    ints = [k for k, dm in inputs.items() if dm[0] != "real"]
    if not ints:
        return
    try:
        g = spec.build()
    except Exception as e:
        res.count("mixture-sample:construct-declined:%s" % type(e).__name__)
        return
    riders.before(list(spec.kwargs.values()))
    logits = np.round(rng.uniform(-1, 1, size=tuple(inputs[k][0] for k in ints)), 2)
    riders.before(logits)
    m = Tensor(logits, OrderedDict((k, Bint[inputs[k][0]]) for k in ints)) + g
    subsets = [c for r in range(0, len(ints) + 1) for c in itertools.combinations(ints, r)]
    I = subsets[int(rng.integers(len(subsets)))]
    S = tuple(reals) + tuple(I)
    si = OrderedDict((n, Bint[int(rng.integers(1, 4))]) for n in ["p", "q"][: int(rng.integers(0, 3))])
    seed = int(rng.integers(1 << 30))
    desc = "mixture[%s; %s].sample(%s, %s) seed=%d" % (spec.label, ",".join("%s:%s" % (k, "R%s" % list(dm[1]) if dm[0] == "real" else "b%d" % dm[0]) for k, dm in inputs.items()),
                                                       list(S), {k: v.size for k, v in si.items()}, seed)
    case = {"label": spec.label, "inputs": {k: list(map(str, v)) for k, v in inputs.items()}, "kwargs": spec.kwargs, "logits": logits, "sampled": list(S)}
    try:
        np.random.seed(seed)
        with np.errstate(all="ignore"):
            smp = m.sample(frozenset(S), si)
    except Exception as e:
        res.count("mixture-sample:declined:%s" % type(e).__name__)
        return
    riders.hold(smp)
    want_inputs = {k: str(to_domain(dm)) for k, dm in inputs.items()}
    want_inputs.update({k: str(v) for k, v in si.items()})
    if {k: str(v) for k, v in smp.inputs.items()} != want_inputs:
        res.violation("sample:mixture-type", "sample inputs %s, expected %s | %s" % ({k: str(v) for k, v in smp.inputs.items()}, want_inputs, desc), case=case)
        return
    deltas, _rest = sample_structure(smp)
    if set(deltas) != set(S):
        res.violation("sample:mixture-structure", "sample binds %s, expected %s | %s" % (sorted(deltas), sorted(S), desc), case=case)
        return
    try:
        with np.errstate(all="ignore"):
            red = funsor.to_funsor(smp.reduce(ops.logaddexp, frozenset(S)))
        kept_ints = [k for k in ints if k not in I]
        bad = None
        for _ in range(4):
            env = {k: int(rng.integers(inputs[k][0])) for k in kept_ints}
            for k, v in si.items():
                env[k] = int(rng.integers(v.size))
            vals = []
            for pt in itertools.product(*[range(inputs[k][0]) for k in I]):
                ie = {**{k: env[k] for k in kept_ints}, **dict(zip(I, pt))}
                vals.append(float(logits[tuple(ie[k] for k in ints)]) + d.log_normalizer(ie))
            want = float(scipy.special.logsumexp(vals))
            got = val(red, {k: env[k] for k in red.inputs})
            if not close(got, want, rtol=1e-5, atol=1e-7):
                bad = "mass of the sample over %s at %s is %s, closed form is %s" % (list(S), env, got, want)
                break
        if bad:
            res.violation("sample:mixture-mass", "%s | %s" % (bad, desc), case=case)
        else:
            res.count("mixture-sample:mass-ok")
    except Exception as e:
        res.count("mixture-sample:undecided:%s" % type(e).__name__)


def part_gaussian_sample(rng, res, riders, i):
    import funsor
    from funsor import ops
    from funsor.domains import Bint, Reals
    from funsor.tensor import Tensor

    from ..build import to_domain

    spec = random_gaussian(rng, full_rank=True, param="white_vec+prec_sqrt" if i % 3 else None)
    riders.before(list(spec.kwargs.values()))
    d = spec.dense
    inputs = spec.inputs
    reals = [k for k, dm in inputs.items() if dm[0] == "real"]
    ints = [k for k, dm in inputs.items() if dm[0] != "real"]
    try:
        g = spec.build()
    except Exception as e:
        res.count("gaussian-sample:construct-declined:%s" % type(e).__name__)
        return
    from funsor.gaussian import Gaussian

    if not isinstance(g, Gaussian):
        res.count("gaussian-sample:skipped-compressed-sum")
        return
    desc = "G[%s; %s]" % (spec.label, ",".join("%s:%s" % (k, "R%s" % list(dm[1]) if dm[0] == "real" else "b%d" % dm[0]) for k, dm in inputs.items()))
    case = {"label": spec.label, "inputs": {k: list(map(str, v)) for k, v in inputs.items()}, "kwargs": spec.kwargs}
    subsets = [s for r in range(1, len(reals) + 1) for s in itertools.combinations(reals, r)]
    S = subsets[int(rng.integers(len(subsets)))]
    kept = [k for k in reals if k not in S]
    # (1) eager sample with integer sample inputs: mass identity against the closed-form marginal
    si = OrderedDict((n, Bint[int(rng.integers(1, 4))]) for n in ["p", "q"][: int(rng.integers(0, 3))])
    seed = int(rng.integers(1 << 30))
    try:
        np.random.seed(seed)
        with np.errstate(all="ignore"):
            s = g.sample(frozenset(S), si)
        np.random.seed(seed)
        s2 = g.sample(frozenset(S), si)
    except Exception as e:
        res.count("gaussian-sample:declined:%s" % type(e).__name__)
        s = None
    okmass = False
    if s is not None:
        riders.hold(s)
        want_inputs = {k: str(to_domain(dm)) for k, dm in inputs.items()}
        want_inputs.update({k: str(v) for k, v in si.items()})
        if {k: str(v) for k, v in s.inputs.items()} != want_inputs:
            res.violation("sample:gaussian-type", "sample inputs %s, expected %s | %s" % (dict(s.inputs), want_inputs, desc), case=case)
        else:
            marg = d.marginalize(S) if kept else None
            try:
                with np.errstate(all="ignore"):
                    red = funsor.to_funsor(s.reduce(ops.logaddexp, frozenset(S)))
                bad = None
                n_el = 0
                for _ in range(4):
                    env = random_point(rng, OrderedDict((k, inputs[k]) for k in ints + kept))
                    for k, v in si.items():
                        env[k] = int(rng.integers(v.size))
                    want = marg(env) if kept else d.log_normalizer({k: env[k] for k in ints})
                    got = val(red, {k: env[k] for k in red.inputs})
                    n_el += 1
                    if not close(got, want, rtol=1e-5, atol=1e-7):
                        bad = "mass of the sample over %s at %s is %s, closed-form marginal is %s" % (S, short({k: (v.tolist() if isinstance(v, np.ndarray) else v) for k, v in env.items()}, 120), got, want)
                        break
                if bad:
                    res.violation("sample:gaussian-mass", "%s | %s" % (bad, desc), case=case)
                else:
                    res.count("gaussian-sample:mass-ok")
                    okmass = True
            except Exception as e:
                res.count("gaussian-sample:undecided:%s" % type(e).__name__)
            d1, _ = sample_structure(s)
            d2, _ = sample_structure(s2)
            try:
                same = set(d1) == set(d2) == set(S) and all(np.allclose(np.asarray(d1[n][0].data), np.asarray(d2[n][0].data)) for n in d1)
                if not same:
                    res.violation("sample:not-reproducible", "re-seeding did not reproduce the Gaussian sample | %s" % desc, case=case)
                else:
                    res.count("gaussian-sample:reseed-ok")
            except Exception:
                res.count("gaussian-sample:reseed-undecided")
    # (2) reparametrised sample: an affine function of the noise with the Gaussian's mean and covariance
    okaff = False
    if len(S) == len(reals):
        bshape = tuple(inputs[k][0] for k in ints)
        dim = d.dim
        noise = OrderedDict(noise=Reals[bshape + (dim,)])
        try:
            with np.errstate(all="ignore"):
                ls = g.sample(frozenset(S), noise)
            deltas, rest = sample_structure(ls)
            off = d.offsets()
            # order of sampled coordinates = order of real inputs in the Gaussian
            def point_at(z):
                cols = []
                for k in reals:
                    pt = deltas[k][0](noise=Tensor(z))
                    pt = funsor.to_funsor(pt)
                    arr = pt.align(tuple(n for n in ints if n in pt.inputs)).data if pt.inputs else pt.data
                    arr = np.broadcast_to(np.asarray(arr).reshape(tuple(inputs[n][0] if n in pt.inputs else 1 for n in ints) + inputs[k][1]), bshape + inputs[k][1])
                    cols.append(arr.reshape(bshape + (-1,)))
                return np.concatenate(cols, axis=-1)

            z0 = np.zeros(bshape + (dim,))
            m = point_at(z0)
            A = np.zeros(bshape + (dim, dim))
            for j in range(dim):
                e = np.zeros(bshape + (dim,))
                e[..., j] = 1.0
                A[..., :, j] = point_at(e) - m
            # affinity: a random noise must satisfy point = m + A z
            zr = np.round(rng.uniform(-1, 1, size=bshape + (dim,)), 2)
            lin = m + (A @ zr[..., None])[..., 0]
            bad = None
            if not close(point_at(zr), lin, rtol=1e-5, atol=1e-7):
                bad = "the reparametrised sample is not affine in the noise"
            else:
                for ienv in d.int_points():
                    idx = tuple(ienv[k] for k in ints)
                    logz, mean, cov = d.moments(ienv)
                    if not close(m[idx], mean, rtol=1e-5, atol=1e-7):
                        bad = "at %s the sample at zero noise is %s, the Gaussian's mean is %s" % (ienv, short(m[idx].tolist()), short(mean.tolist()))
                        break
                    if not close(A[idx] @ A[idx].T, cov, rtol=1e-5, atol=1e-7):
                        bad = "at %s the sample's noise map gives covariance %s, the Gaussian's is %s" % (ienv, short((A[idx] @ A[idx].T).tolist()), short(cov.tolist()))
                        break
            if bad:
                res.violation("sample:gaussian-reparam", "%s | %s" % (bad, desc), case=case)
            else:
                res.count("gaussian-reparam:affine-ok")
                okaff = True
        except Exception as e:
            res.count("gaussian-reparam:declined:%s" % type(e).__name__)
    res.case(key=digest(("gaussian-sample", spec.label, tuple(inputs.items()), S, seed)) if (okmass or okaff) else None, nontrivial=okmass or okaff,
             sample={"part": "D", "gaussian": desc[:200], "sampled": list(S), "sample_inputs": {k: v.size for k, v in si.items()}} if (okmass or okaff) else None)


def workload(rng, n):
    from funsor.domains import Bint
    from funsor.tensor import Tensor

    for _ in range(n):
        names = ["a", "b", "c"][: int(rng.integers(1, 4))]
        sizes = {k: int(rng.integers(1, 4)) for k in names}
        data = np.round(rng.uniform(-2, 2, size=tuple(sizes[k] for k in names)), 2)

        def thunk(names=names, sizes=sizes, data=data, seed=int(rng.integers(1 << 30))):
            np.random.seed(seed)
            t = Tensor(data, OrderedDict((k, Bint[sizes[k]]) for k in names))
            return t.sample(frozenset(names[:1]), OrderedDict(p=Bint[2]))

        yield "tensor-sample", [data], thunk
