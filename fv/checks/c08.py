"""C08 Normal forms and contraction-order optimisation preserve value.

Oracle: reference evaluator (naive eager evaluation is also run and must agree). Routes: normalize (+eager, +idempotence),
unfold, apply_optimizer, funsor.einsum.einsum for the three numpy backends.
"""
import itertools

import numpy as np

from ..common import close, digest, shard_rng, short
from ..gen.e4 import NAMES, SEMIRINGS, SemiringGen, einsum_equations
from ..ir import IllTyped, Unsupported, kinds_in, show, typecheck
from ..monitors import Riders
from ..oracle import Verdict, compare

ID = "C08"
LEVEL = "exploration"
RULE = ("sum-product IR programs per semiring {(add,mul),(logaddexp,add),(max,add),(min,add),(max,mul)>=0,(min,mul)>=0,(or,and) bool}: "
        "nested reductions of products/sums with substitutions, <=8 operands over 5 names of sizes 1-4, operands with and without each "
        "reduced variable, optional free real parameter; routes naive-eager, normalize->eager (+idempotence by identity), unfold->eager, "
        "apply_optimizer; plus enumerated einsum equations x 3 numpy backends vs brute force. Non-trivial: >=1 reduction and >=2 operands "
        "and >=2 routes completed; distinct by (semiring, IR hash) / (backend, equation, shapes)")
ASSUMPTIONS = ["fv/refsem.py is the reference", "programs are generated inside the carrier of their semiring (non-negative data for max/min with mul, booleans for or/and)"]
MIN_NONTRIVIAL = {"quick": 1500, "thorough": 15000}
REQUIRED_COUNTERS = ["route:normalize:ok", "route:unfold:ok", "route:optimizer:ok", "route:eager:ok", "normalize-idempotent:checked", "einsum:ok"] + [
    # per semiring and route (each has a floor in fv/floors.json): a rule that declines for one semiring must not hide among the others
    "semiring:%s-%s:%s:ok" % (a, b, r) for a, b in (("add", "mul"), ("logaddexp", "add"), ("max", "add"), ("min", "add"), ("max", "mul"), ("min", "mul"), ("or_", "and_"))
    for r in ("eager", "normalize", "unfold", "optimizer")]

ROUTES = ("eager", "normalize", "unfold", "optimizer")


def plan(tier, seed):
    shards = []
    per = 160 if tier == "quick" else 1200
    reps = 2 if tier == "quick" else 4
    for si, sr in enumerate(SEMIRINGS):
        for r in range(reps):
            shards.append({"name": "sr-%s-%s-%d" % (sr[0], sr[1], r), "kind": "semiring", "semiring": si, "n": per, "depth": 3 + (r % 2), "timeout": 3000})
    ne = 6 if tier == "quick" else 16
    for i in range(ne):
        shards.append({"name": "einsum-%d" % i, "kind": "einsum", "index": i, "of": ne, "timeout": 3000})
    return shards


def run_route(route, P):
    import funsor
    from funsor.interpretations import lazy, normalize
    from funsor.optimizer import apply_optimizer, unfold

    from ..build import build

    if route == "eager":
        return build(P), None
    if route == "normalize":
        with normalize:
            N = build(P)
        return funsor.reinterpret(N), N
    with lazy:
        L = build(P)
    if route == "unfold":
        with unfold:
            U = funsor.reinterpret(L)
        return funsor.reinterpret(U), U
    return apply_optimizer(L), L


def run_shard(shard, res):
    rng = shard_rng(shard["seed"], ID, shard["name"])
    riders = Riders(res)
    if shard["kind"] == "einsum":
        return run_einsum(shard, res, rng, riders)
    sr = SEMIRINGS[shard["semiring"]]
    g = SemiringGen(rng, sr)
    for _ in range(shard["n"]):
        P = g.program(shard["depth"])
        run_case(P, sr, res, riders, rng)


def run_case(P, sr, res, riders, rng):
    import funsor
    from funsor.interpretations import normalize

    try:
        p_inputs, p_out = typecheck(P)
    except (IllTyped, Unsupported) as e:
        res.count("discarded:%s" % type(e).__name__)
        return
    riders.before(P)
    ks = kinds_in(P)
    n_ops = sum(1 for k in ks if k in ("ten", "num"))
    n_red = sum(1 for k in ks if k.startswith("red"))
    done = 0
    for route in ROUTES:
        try:
            with np.errstate(all="ignore"):
                R, mid = run_route(route, P)
        except Exception as e:
            res.count("route:%s:declined:%s" % (route, type(e).__name__))
            continue
        riders.hold(R)
        try:
            v = compare(R, P, rng, max_points=96)
        except Exception as e:
            res.count("harness:oracle-exception:%s" % type(e).__name__)
            v = Verdict("undecided", "oracle-exception", str(e))
        res.count("route:%s:%s" % (route, v.status))
        if v.status == "ok":
            done += 1
            res.count("semiring:%s-%s:%s:ok" % (sr[0], sr[1], route))
        if v.status == "bad":
            report(P, sr, route, v, res, rng)
        if route == "normalize" and mid is not None:
            # normalising an already normalised term returns the identical object
            try:
                with normalize:
                    N2 = funsor.reinterpret(mid)
                res.count("normalize-idempotent:checked")
                if N2 is not mid:
                    with normalize:
                        N3 = funsor.reinterpret(N2)
                    res.violation("normalize-not-idempotent", "normalize(normalize(t)) is not normalize(t) (third pass identical: %s) | %s | first: %s | second: %s" % (
                        N3 is N2, show(P)[:300], str(mid)[:200].replace("\n", " "), str(N2)[:200].replace("\n", " ")), case={"P": P, "semiring": list(sr)})
            except Exception as e:
                res.count("normalize-idempotent:declined:%s" % type(e).__name__)
    nontriv = n_red >= 1 and n_ops >= 2 and done >= 2
    res.case(key=digest((sr, P)) if nontriv else None, nontrivial=nontriv,
             sample={"semiring": list(sr[:2]), "program": show(P)[:300], "routes_ok": done} if nontriv else None)
    res.count("semiring:%s,%s" % sr[:2])
    muts, rep = riders.after(None)
    for m in muts:
        res.violation("rider:mutation", "%s while evaluating %s" % (m, show(P)[:300]), case={"P": P})
    if rep:
        res.violation("rider:stack", "%s after %s" % (rep, show(P)[:300]), case={"P": P})


def report(P, sr, route, v, res, rng):
    from ..triage import localise

    t = localise(lambda: run_route(route, P), rng)
    if t.out_of_carrier and not t.culprits:
        res.count("skipped:out-of-carrier")
        return
    res.violation("%s@%s" % (v.kind, t.key), "[%s %s,%s] %s: %s | program: %s | culprit: %s" % (
        route, sr[0], sr[1], v.kind, v.detail, show(P)[:400], "; ".join(t.descriptions)[:600] or "none among %d firings" % t.firings),
        case={"P": P, "semiring": list(sr), "route": route})


# ---------------------------------------------------------------------------
# einsum front end


def brute_einsum(eq, operands, sizes, sum_op):
    import scipy.special

    ins, out = eq.split("->")
    ins = ins.split(",")
    syms = sorted(set("".join(ins)))
    contract = [s for s in syms if s not in out]
    result = np.empty(tuple(sizes[s] for s in out))
    for opt in itertools.product(*[range(sizes[s]) for s in out]):
        env = dict(zip(out, opt))
        vals = []
        for cpt in itertools.product(*[range(sizes[s]) for s in contract]):
            env.update(zip(contract, cpt))
            fs = [float(o[tuple(env[s] for s in spec)]) for spec, o in zip(ins, operands)]
            vals.append(float(np.prod(fs)) if sum_op == "add" else float(np.sum(fs)))
        result[opt] = np.sum(vals) if sum_op == "add" else scipy.special.logsumexp(vals) if sum_op == "logaddexp" else np.max(vals)
    return result


def run_einsum(shard, res, rng, riders):
    from collections import OrderedDict

    from funsor.domains import Bint
    from funsor.einsum import einsum
    from funsor.tensor import Tensor

    tier = shard["tier"]
    eqs = list(einsum_equations(3 if tier == "quick" else 4, 3 if tier == "quick" else 4))
    if tier == "quick":
        # all equations with <= 2 operands plus a random sample of the 3-operand ones
        small = [e for e in eqs if e.count(",") <= 1]
        big = [e for e in eqs if e.count(",") > 1]
        idx = shard_rng(shard["seed"], ID, "einsum-sample").choice(len(big), size=min(len(big), 1200), replace=False)
        eqs = small + [big[i] for i in sorted(idx)]
    res.count("einsum:equations-in-space", len(eqs))
    backends = [("numpy", "add"), ("funsor.einsum.numpy_log", "logaddexp"), ("funsor.einsum.numpy_map", "max")]
    for ei, eq in enumerate(eqs):
        if ei % shard["of"] != shard["index"]:
            continue
        ins, out = eq.split("->")
        ins = ins.split(",")
        sizes = {s: int(rng.integers(1, 4)) for s in set("".join(ins))}
        operands = [np.round(rng.uniform(0.25, 2.0, size=tuple(sizes[s] for s in spec)), 2) for spec in ins]
        riders.before(operands)
        for backend, sum_op in backends:
            fs = [Tensor(o, OrderedDict((s, Bint[sizes[s]]) for s in spec)) for spec, o in zip(ins, operands)]
            try:
                with np.errstate(all="ignore"):
                    r = einsum(eq, *fs, backend=backend)
            except Exception as e:
                res.count("einsum:declined:%s" % type(e).__name__)
                res.case()
                continue
            expect = brute_einsum(eq, operands, sizes, sum_op)
            key = (backend, eq, tuple(sorted(sizes.items())))
            msg = None
            if not isinstance(r, Tensor):
                from funsor.terms import Number

                if isinstance(r, Number) and out == "":
                    got = np.asarray(r.data)
                else:
                    msg = "einsum returned %s" % type(r).__name__
                    got = None
            else:
                extra = set(r.inputs) - set(out)
                if extra:
                    msg = "einsum result has inputs %s outside the output %r" % (sorted(extra), out)
                    got = None
                else:
                    try:
                        got = np.broadcast_to(r.align(tuple(s for s in out if s in r.inputs)).data.reshape(
                            tuple(sizes[s] if s in r.inputs else 1 for s in out)), expect.shape)
                    except Exception as e:
                        msg = "could not read result: %s" % e
                        got = None
            if msg is None and not close(got, expect, rtol=1e-6):
                msg = "einsum(%r, backend=%s) = %s, brute force = %s" % (eq, backend, short(np.asarray(got).tolist(), 120), short(expect.tolist(), 120))
            res.count("einsum:ok" if msg is None else "einsum:bad")
            res.case(key=str(key), nontrivial=("," in eq or len(out) < len(set(eq) - set(",->"))), sample={"equation": eq, "backend": backend, "sizes": sizes})
            if msg:
                from ..triage import localise

                t = localise(lambda: einsum(eq, *fs, backend=backend), rng)
                res.violation("einsum@%s" % t.key, "%s | sizes=%s | culprit: %s" % (msg, sizes, "; ".join(t.descriptions)[:500]), case={"eq": eq, "backend": backend, "sizes": sizes, "operands": operands})
        muts, rep = riders.after(None)
        for m in muts:
            res.violation("rider:mutation", "%s during einsum %s" % (m, eq))
        if rep:
            res.violation("rider:stack", "%s after einsum %s" % (rep, eq))


def replay(rep, res):
    from ..common import dec
    from ..localise import retuple

    c = dec(rep["violation"]["case"])
    if "P" in c:
        run_case(retuple(c["P"]), tuple(c.get("semiring", SEMIRINGS[0])), res, Riders(res), shard_rng(0, ID, "replay"))
