"""C20 Terms and the arrays behind them are never mutated.

Monitor M20: every leaf array handed to funsor is write-protected (a write attempt raises at the write site) and content-hashed;
every funsor that is an argument of any rule firing, every result, and every leaf array are snapshotted when first seen and
re-checked after each program and at the end of the run.
"""
import numpy as np

from ..common import digest, shard_rng
from ..dispatchmon import get_monitor
from ..monitors import MutationMonitor, Riders, array_hash, ir_arrays

ID = "C20"
LEVEL = "exploration"
RULE = ("every program of every engine (E1 tensor algebra and routes, E2 substitution, E3 binders, E4 semirings, einsum, plated sum-product, "
        "Markov products, adjoints, Gaussian algebra and marginals, sampling, compiler, synthetic rare-rule constructions): leaf arrays are "
        "made read-only and hashed; every funsor passed to any rule (via the dispatch monitor) and every result is snapshotted (inputs, "
        "output, data hash, Gaussian parameter hashes) when first seen; all snapshots are re-verified after the program, and all leaf arrays "
        "again at the end of the shard. A case is one program; non-trivial when >=3 funsors and >=1 array were re-verified; distinct by engine + program label + array hash")
ASSUMPTIONS = ["memoised attributes (lazy_property, _ast_stats) are not part of a term's value", "numpy raises on writes to arrays with flags.writeable=False"]
MIN_NONTRIVIAL = {"quick": 2500, "thorough": 12000}
REQUIRED_COUNTERS = ["M20:funsors-reverified", "M20:arrays-reverified", "M20:arrays-protected", "programs-run"]


def plan(tier, seed):
    per = {"E1": 300, "E1-routes": 150, "E2": 300, "E3": 200, "E4": 200, "einsum": 80, "E5-plated": 80, "E6-markov": 60, "E7-adjoint": 60,
           "E8-gaussian": 150, "E9-marginals": 100, "E10-sampling": 100, "E14-compiler": 100, "E12-synth": 150}
    reps = 3 if tier == "quick" else 12
    return [{"name": "%s-%d" % (eng, r), "engine": eng, "n": n, "timeout": 3000} for r in range(reps) for eng, n in per.items()]


def run_shard(shard, res):
    from funsor.terms import Funsor

    from ..workloads import engines

    rng = shard_rng(shard["seed"], ID, shard["name"])
    riders = Riders(res)
    mon = get_monitor()
    end_of_run = []            # (array, hash) of every leaf array, re-verified at the end of the shard
    seen = {}

    def on_args(args):
        for a in args:
            if isinstance(a, Funsor) and id(a) not in seen:
                seen[id(a)] = (a, MutationMonitor.snap_funsor(a))
            elif isinstance(a, tuple):
                for b in a:
                    if isinstance(b, Funsor) and id(b) not in seen:
                        seen[id(b)] = (b, MutationMonitor.snap_funsor(b))

    mon.on_args = on_args
    try:
        for label, holder, thunk in engines()[shard["engine"]](rng, shard["n"]):
            arrays = ir_arrays(holder)
            riders.before(holder)
            res.count("M20:arrays-protected", len(arrays))
            for a in arrays:
                end_of_run.append((a, array_hash(a)))
            seen.clear()
            mon.start()
            result = None
            try:
                with np.errstate(all="ignore"):
                    result = thunk()
            except ValueError as e:
                if "read-only" in str(e) or "not writeable" in str(e) or "WRITEABLE" in str(e):
                    import traceback

                    tb = traceback.extract_tb(e.__traceback__)
                    site = next((("funsor/%s:%d in %s" % (fr.filename.split("/funsor/")[-1], fr.lineno, fr.name)) for fr in reversed(tb) if "/funsor/" in fr.filename and "/verif/" not in fr.filename), "?")
                    res.violation("mutation:write-to-user-array@%s" % site.split(" in ")[-1], "funsor attempted to write into a user-supplied (read-only) array at %s during %s" % (site, label))
                else:
                    res.count("workload-declined:ValueError")
            except Exception as e:
                res.count("workload-declined:%s" % type(e).__name__)
            mon.stop()
            for r in (result if isinstance(result, (tuple, list)) else (result,)):
                if isinstance(r, Funsor):
                    riders.hold(r)
            bad = []
            for a, snap in seen.values():
                res.count("M20:funsors-reverified")
                try:
                    now = MutationMonitor.snap_funsor(a)
                except Exception as e:
                    bad.append("a %s became unreadable: %s" % (type(a).__name__, e))
                    continue
                if now != snap:
                    which = [n for n, x, y in zip(("inputs", "output", "data", "gaussian-parameters"), snap, now) if x != y]
                    bad.append("a %s passed to a rule changed its %s" % (type(a).__name__, "/".join(which)))
            nf = len(seen)
            seen.clear()
            muts, rep = riders.after(None)
            res.count("M20:arrays-reverified", len(arrays))
            for m in bad + muts:
                res.violation("mutation:%s" % ("operand-changed" if "passed to a rule" in m or "held" in m else "array-changed"), "%s during %s" % (m, label))
            if rep:
                res.violation("rider:stack", "%s after %s" % (rep, label))
            res.count("programs-run")
            nontriv = nf >= 3 and len(arrays) >= 1
            res.case(key=digest((shard["engine"], label, [array_hash(a) for a in arrays[:4]])) if nontriv else None, nontrivial=nontriv,
                     sample={"engine": shard["engine"], "program": label, "arrays": len(arrays), "funsors_reverified": nf} if nontriv else None)
    finally:
        mon.on_args = None
    for a, h in end_of_run:
        res.count("M20:arrays-reverified")
        if array_hash(a) != h:
            res.violation("mutation:array-changed", "a leaf array of shape %s differs at the end of the run from its content when it was handed to funsor" % (a.shape,))
