"""C11 Adjoints are semiring derivatives of the forward value.

Oracle: symbolic product rule on the IR (fv/refsem for plain values): d root / d leaf[x] = (+) over all other variables of (x) of all
other factor occurrences; for roots with free inputs the adjoint is indexed by the root's point as funsor does
(agg_vars excludes root inputs).
"""
import itertools
from collections import OrderedDict

import numpy as np

from ..common import close, digest, shard_rng, short
from ..ir import IllTyped, Unsupported, bound_names, show, typecheck, uniquify_binders
from ..monitors import Riders
from ..refsem import BIN, UNIT, all_envs, domain_points, inputs_of, ref_eval

ID = "C11"
LEVEL = "exploration"
RULE = ("sum-product IR programs over 1-5 distinct leaf tensors and 4 variables of sizes 1-3: products, semiring sums, reductions over any "
        "subset (fully reduced roots are the main stratum, partially reduced ones included), leaves passed through renamings, slices, Cat "
        "and injective index substitutions, a leaf used twice; semirings (add,mul) and (logaddexp,add); built under reflect and given to "
        "forward_backward directly and after apply_optimizer; a targeted family multiplies one featured leaf by a cofactor over all its names.  Forward value vs reference; each leaf's adjoint vs the product-rule derivative "
        "at every point. Non-trivial: >=2 leaves, adjoint compared at >=2 points; distinct by (semiring, IR hash, route)")
ASSUMPTIONS = ["fv/refsem.py values; derivative by the product rule in this module", "adjoints may omit inputs they do not depend on; comparison is pointwise over the leaf's and root's inputs"]
MIN_NONTRIVIAL = {"quick": 250, "thorough": 3000}
REQUIRED_COUNTERS = ["forward:ok", "adjoint:ok", "route:direct:adjoint-ok", "route:optimizer:adjoint-ok", "leaf-feature:renamed", "leaf-feature:sliced", "leaf-feature:cat", "leaf-feature:indexed", "leaf-feature:twice"]

NAMES = {"i": 2, "j": 3, "k": 2, "l": 3}
SEMIRINGS = [("add", "mul"), ("logaddexp", "add")]


class AdjGen:
    def __init__(self, rng, sr):
        self.rng = rng
        self.sum_op, self.prod_op = sr
        self.leaves = []
        self.features = set()
        self.counter = 0

    def choice(self, xs):
        return xs[int(self.rng.integers(len(xs)))]

    def new_leaf(self, names=None, sizes=None):
        if names is None:
            names = [n for n in NAMES if self.rng.random() < 0.5] or [self.choice(list(NAMES))]
            self.rng.shuffle(names)
        sizes = sizes or NAMES
        data = np.round(self.rng.uniform(0.25, 1.75, size=tuple(sizes[n] for n in names)), 2)
        if self.prod_op == "add":
            data = data - 1.0
        t = ("ten", np.ascontiguousarray(data), tuple(names), "real")
        self.leaves.append(t)
        return t

    def leaf_use(self):
        r = self.rng.random()
        if self.leaves and r < 0.12:
            self.features.add("twice")
            return self.choice(self.leaves)
        t = self.new_leaf()
        names = t[2]
        if r < 0.2 and names:
            # colliding simultaneous renamings: swap of two equal-size names, shift a->b, b->fresh/other, in-place permutation index
            c = self.rng.random()
            pairs = [(a, b) for a in names for b in names if a < b and NAMES[a] == NAMES[b]]
            if c < 0.35 and pairs:
                a, b = self.choice(pairs)
                self.features.add("renamed-swap")
                return ("sub", t, ((a, ("var", b, (NAMES[a], ()))), (b, ("var", a, (NAMES[a], ())))))
            if c < 0.7 and pairs:
                a, b = self.choice(pairs)
                if self.rng.random() < 0.5:
                    a, b = b, a
                cands = [n for n in NAMES if NAMES[n] == NAMES[a] and n not in names]
                self.counter += 1
                new = self.choice(cands + ["z%d" % self.counter])
                self.features.add("renamed-shift")
                return ("sub", t, ((a, ("var", b, (NAMES[a], ()))), (b, ("var", new, (NAMES[a], ())))))
            if c < 0.85 and pairs:
                # renaming onto a name the leaf keeps (diagonal): x[a,b](a='b')
                a, b = self.choice(pairs)
                if self.rng.random() < 0.5:
                    a, b = b, a
                self.features.add("renamed-diagonal")
                return ("sub", t, ((a, ("var", b, (NAMES[a], ()))),))
            k = self.choice(list(names))
            if NAMES[k] >= 2:
                perm = self.rng.permutation(NAMES[k]).astype(np.int64)
                self.features.add("indexed-in-place")
                return ("sub", t, ((k, ("ten", perm, (k,), NAMES[k])),))
        if r < 0.26 and len(names) >= 2:
            # one substitution mixing a renaming with a slice / a fixed index / a permutation table on another name
            k1, k2 = [str(x) for x in self.rng.choice(list(names), size=2, replace=False)]
            self.counter += 1
            cands = [n for n in NAMES if NAMES[n] == NAMES[k1] and n not in names]
            new = self.choice(cands + ["z%d" % self.counter])
            size = NAMES[k2]
            c = self.rng.random()
            if c < 0.4 and size >= 2:
                start = int(self.rng.integers(0, size - 1))
                stop = int(self.rng.integers(start + 1, size + 1))
                v2 = ("slice", "s%d" % self.counter, start, stop, 1, size)
            elif c < 0.7:
                v2 = ("num", int(self.rng.integers(size)), size)
            else:
                v2 = ("ten", self.rng.permutation(size).astype(np.int64), ("q%d" % self.counter,), size)
            pairs2 = [(k1, ("var", new, (NAMES[k1], ()))), (k2, v2)]
            if self.rng.random() < 0.5:
                pairs2.reverse()
            self.features.add("renamed+other")
            return ("sub", t, tuple(pairs2))
        if r < 0.3 and names:
            # renaming onto a fresh or another pool name of equal size (not one the leaf already has)
            k = self.choice(list(names))
            cands = [n for n in NAMES if NAMES[n] == NAMES[k] and n not in names]
            self.counter += 1
            new = self.choice(cands + ["z%d" % self.counter])
            self.features.add("renamed")
            return ("sub", t, ((k, ("var", new, (NAMES[k], ()))),))
        if r < 0.42 and names:
            k = self.choice(list(names))
            size = NAMES[k]
            if size >= 2:
                start = int(self.rng.integers(0, size - 1))
                stop = int(self.rng.integers(start + 1, size + 1))
                self.features.add("sliced")
                self.counter += 1
                return ("sub", t, ((k, ("slice", "s%d" % self.counter, start, stop, 1, size)),))
        if r < 0.52 and names:
            # injective index substitution: a permutation table over a name of the same size
            k = self.choice(list(names))
            size = NAMES[k]
            cands = [n for n in NAMES if NAMES[n] == size and n not in names] + ["q%d" % self.counter]
            self.counter += 1
            other = self.choice(cands)
            perm = self.rng.permutation(size).astype(np.int64)
            self.features.add("indexed")
            return ("sub", t, ((k, ("ten", perm, (other,), size)),))
        if r < 0.62:
            # concatenation of two leaves along a name
            k = self.choice(list(NAMES))
            rest = [n for n in NAMES if n != k and self.rng.random() < 0.4]
            s1 = int(self.rng.integers(1, 3))
            s2 = int(self.rng.integers(1, 3))
            repeated = self.rng.random() < 0.3
            if repeated:
                s1 = s2 = 1      # so that the total size (2 or 3) is the size of a pool name other factors can share
            self.leaves.pop()  # the unused fresh leaf
            a = self.new_leaf([k] + rest, dict(NAMES, **{k: s1}))
            b = self.new_leaf([k] + rest, dict(NAMES, **{k: s2}))
            self.features.add("cat")
            self.counter += 1
            # the concatenated name is fresh, or a pool name of the total size that other factors share
            parts = (a, b)
            if repeated:
                # the same leaf occurs twice among the parts
                parts = (a, b, a) if self.rng.random() < 0.5 else (a, a)
                self.features.add("cat-repeated-part")
            total = sum(p[1].shape[p[2].index(k)] for p in parts)
            shared = [n for n in NAMES if NAMES[n] == total and n not in rest and n != k]
            if shared and self.rng.random() < (0.9 if repeated else 0.6):
                self.features.add("cat-shared-name")
                return ("cat", self.choice(shared), parts, k)
            return ("cat", "c%d" % self.counter, parts, k)
        return t

    def expr(self, depth):
        if depth <= 0 or len(self.leaves) >= 5 or self.rng.random() < 0.2:
            return self.leaf_use()
        r = self.rng.random()
        if r < 0.45:
            return ("bin", self.prod_op, (), self.expr(depth - 1), self.expr(depth - 1))
        if r < 0.85:
            e = self.expr(depth - 1)
            try:
                inp = inputs_of(e)
            except (IllTyped, Unsupported):
                return e
            present = [n for n, d in inp.items() if d[1] == ()]
            if not present:
                return e
            k = int(self.rng.integers(1, len(present) + 1))
            vs = [str(v) for v in self.rng.choice(present, size=k, replace=False)]
            return ("red", self.sum_op, e, tuple(sorted((n, inp[n]) for n in vs)))
        return ("bin", self.sum_op, (), self.expr(depth - 1), self.expr(depth - 1))

    def targeted(self):
        """one leaf under a feature (renaming, slice, index, Cat, ...) multiplied by a cofactor that mentions every resulting name, so
        that the adjoint handed down to the feature is a tensor over all of them; everything reduced"""
        self.leaves, self.features = [], set()
        for _ in range(20):
            self.leaves, self.features = [], set()
            u = self.leaf_use()
            if u[0] != "ten":
                break
        try:
            inp = inputs_of(u)
        except (IllTyped, Unsupported):
            return u
        names = list(inp)
        self.rng.shuffle(names)
        sizes = {n: d[0] for n, d in inp.items()}
        sizes.update({n: z for n, z in NAMES.items() if n not in sizes})
        extra = [n for n in NAMES if n not in names and self.rng.random() < 0.25]
        cof = self.new_leaf(names + extra, sizes)
        e = ("bin", self.prod_op, (), u, cof) if self.rng.random() < 0.5 else ("bin", self.prod_op, (), cof, u)
        if self.rng.random() < 0.3:
            e = ("bin", self.prod_op, (), e, self.new_leaf())
        inp = inputs_of(e)
        return ("red", self.sum_op, e, tuple(sorted(inp.items())))

    def program(self, depth, fully_reduced):
        self.leaves, self.features = [], set()
        e = self.expr(depth)
        if fully_reduced:
            try:
                inp = inputs_of(e)
            except (IllTyped, Unsupported):
                return e
            if inp:
                e = ("red", self.sum_op, e, tuple(sorted(inp.items())))
        return e


def arrays_of(ir, acc=None):
    if acc is None:
        acc = []
    if isinstance(ir, np.ndarray):
        if not any(ir is a for a in acc):
            acc.append(ir)
    elif isinstance(ir, tuple):
        for c in ir:
            arrays_of(c, acc)
    return acc


def count_occurrences(ir, arr):
    if isinstance(ir, np.ndarray):
        return 1 if ir is arr else 0
    if isinstance(ir, tuple):
        return sum(count_occurrences(c, arr) for c in ir)
    return 0


def contains_leaf(ir, arr):
    if isinstance(ir, np.ndarray):
        return ir is arr
    if isinstance(ir, tuple):
        return any(contains_leaf(c, arr) for c in ir)
    return False


def deriv(ir, env, arr, x, sr, only=None, path=()):
    """semiring derivative of ir (at env) with respect to the leaf array `arr` at index tuple x
    (`only`: restrict to the occurrence of the leaf at that structural path)"""
    sum_op, prod_op = sr
    zero, one = UNIT[sum_op], UNIT[prod_op]
    k = ir[0]
    if not contains_leaf(ir, arr):
        return zero
    if k == "ten":
        if ir[1] is arr and (only is None or only == path):
            return one if tuple(int(env[n]) for n in ir[2]) == tuple(x) else zero
        return zero
    if k == "bin":
        a, b = ir[3], ir[4]
        if ir[1] == prod_op:
            da, db = deriv(a, env, arr, x, sr, only, path + (0,)), deriv(b, env, arr, x, sr, only, path + (1,))
            with np.errstate(all="ignore"):
                return BIN[sum_op](BIN[prod_op](da, ref_eval(b, env)), BIN[prod_op](ref_eval(a, env), db))
        if ir[1] == sum_op:
            with np.errstate(all="ignore"):
                return BIN[sum_op](deriv(a, env, arr, x, sr, only, path + (0,)), deriv(b, env, arr, x, sr, only, path + (1,)))
        raise Unsupported("derivative of bin " + ir[1])
    if k == "red":
        if ir[1] != sum_op:
            raise Unsupported("derivative of a %s reduction" % ir[1])
        vs = sorted(ir[3])
        names = [n for n, d in vs]
        acc = zero
        for pt in itertools.product(*[domain_points(d) for n, d in vs]):
            e2 = dict(env)
            e2.update(zip(names, pt))
            with np.errstate(all="ignore"):
                acc = BIN[sum_op](acc, deriv(ir[2], e2, arr, x, sr, only, path + (0,)))
        return acc
    if k == "sub":
        e2 = dict(env)
        free = inputs_of(ir[1])
        for name, v in ir[2]:
            if name in free:
                e2[name] = ref_eval(v, env)
        return deriv(ir[1], e2, arr, x, sr, only, path + (0,))
    if k == "cat":
        _, name, parts, part_name = ir
        n = int(env[name])
        for pi, p in enumerate(parts):
            size = inputs_of(p)[part_name][0]
            if n < size:
                e2 = dict(env)
                e2[part_name] = n
                return deriv(p, e2, arr, x, sr, only, path + (pi,))
            n -= size
    raise Unsupported("derivative of " + k)


def occurrences(ir, arr, sr, path=(), R=None, C=frozenset()):
    """[(path, lost multiplicity)] for every occurrence of the leaf: the product of the sizes of the variables reduced above the
    occurrence that neither the occurrence term nor any (x)-sibling on the way mentions (funsor's tape cannot aggregate over them)"""
    R = R or {}
    k = ir[0]
    if not contains_leaf(ir, arr):
        return []
    if k == "ten":
        return [(path, _lost(R, C, set(ir[2])))]
    if k in ("sub", "cat") and all(c[0] == "ten" for c in ([ir[1]] if k == "sub" else ir[2])):
        own = set(inputs_of(ir))
        out = []
        for ci, c in enumerate([ir[1]] if k == "sub" else ir[2]):
            if c[1] is arr:
                out.append((path + (ci,), _lost(R, C, own)))
        return out
    if k == "bin":
        a, b = ir[3], ir[4]
        if ir[1] == sr[1]:
            return (occurrences(a, arr, sr, path + (0,), R, C | frozenset(inputs_of(b))) + occurrences(b, arr, sr, path + (1,), R, C | frozenset(inputs_of(a))))
        return occurrences(a, arr, sr, path + (0,), R, C) + occurrences(b, arr, sr, path + (1,), R, C)
    if k == "red":
        R2 = dict(R)
        R2.update({n: d[0] for n, d in ir[3]})
        return occurrences(ir[2], arr, sr, path + (0,), R2, C)
    if k == "sub":
        return occurrences(ir[1], arr, sr, path + (0,), R, C)
    return [(None, None)]


def _lost(R, C, own):
    m = 1
    for v, size in R.items():
        if v not in C and v not in own:
            m *= size
    return m


def reduced_var_sizes(ir, acc=None):
    if acc is None:
        acc = {}
    if isinstance(ir, tuple) and ir and isinstance(ir[0], str):
        if ir[0] == "red":
            for n, d in ir[3]:
                acc[n] = d[0]
        for c in ir[1:]:
            reduced_var_sizes(c, acc)
    elif isinstance(ir, tuple):
        for c in ir:
            reduced_var_sizes(c, acc)
    return acc


def has_sum_branch_or_absent_reduction(ir, sum_op):
    if isinstance(ir, tuple) and ir and isinstance(ir[0], str):
        if ir[0] == "bin" and ir[1] == sum_op:
            return True
        if ir[0] == "red":
            try:
                body = inputs_of(ir[2])
                if any(n not in body for n, d in ir[3]):
                    return True
            except Exception:
                pass
        return any(has_sum_branch_or_absent_reduction(c, sum_op) for c in ir[1:])
    if isinstance(ir, tuple):
        return any(has_sum_branch_or_absent_reduction(c, sum_op) for c in ir)
    return False


def contr_to_basic(ir):
    """rewrite Contraction nodes of a lifted term into nested binary products under a reduction"""
    if not isinstance(ir, tuple) or not ir or not isinstance(ir[0], str):
        return ir
    k = ir[0]
    if k == "ten":
        return ir
    if k == "contr":
        _, red, binop, vs, terms = ir
        terms = [contr_to_basic(t) for t in terms]
        body = terms[0]
        for t in terms[1:]:
            body = ("bin", binop, (), body, t)
        return ("red", red, body, vs) if vs and red != "null" else body
    if k == "sub":
        return ("sub", contr_to_basic(ir[1]), tuple((n, contr_to_basic(v)) for n, v in ir[2]))
    if k == "cat":
        return ("cat", ir[1], tuple(contr_to_basic(p) for p in ir[2]), ir[3])
    if k == "bin":
        return ("bin", ir[1], ir[2], contr_to_basic(ir[3]), contr_to_basic(ir[4]))
    if k == "red":
        return ("red", ir[1], contr_to_basic(ir[2]), ir[3])
    if k == "un":
        return ("un", ir[1], ir[2], contr_to_basic(ir[3]))
    return ir


def _safe(thunk):
    try:
        return thunk()
    except Exception:
        import os, traceback

        if os.environ.get("FV_DEBUG"):
            traceback.print_exc()
        return False


def occurrence_ties(ir, arr, path=()):
    """{path: (ia, ib)} for the occurrences of the leaf that sit directly under a diagonal renaming (paths as in `occurrences`)"""
    k = ir[0]
    if not contains_leaf(ir, arr):
        return {}
    if k == "ten":
        return {}
    if k in ("sub", "cat") and all(c[0] == "ten" for c in ([ir[1]] if k == "sub" else ir[2])):
        out = {}
        if k == "sub" and ir[1][1] is arr:
            names = list(ir[1][2])
            keys = [kk for kk, v in ir[2]]
            ties = [(names.index(kk), names.index(v[1])) for kk, v in ir[2] if v[0] == "var" and v[1] in names and v[1] not in keys and kk in names]
            if len(ties) == 1:
                out[path + (0,)] = ties[0]
        return out
    if k == "bin":
        out = occurrence_ties(ir[3], arr, path + (0,))
        out.update(occurrence_ties(ir[4], arr, path + (1,)))
        return out
    if k == "red":
        return occurrence_ties(ir[2], arr, path + (0,))
    if k == "sub":
        return occurrence_ties(ir[1], arr, path + (0,))
    return {}


def general_model_matches(P, arr, sr, adj, lnames, value_at):
    """The two recorded adjoint mechanisms combined per occurrence of the leaf: every occurrence's contribution is divided by its lost
    multiplicity (see `occurrences`), and an occurrence under a diagonal renaming x(a='b') may have its contribution broadcast along
    `a` (constant incoming adjoint). Returns the set of mechanisms of a combination that reproduces the returned adjoint at every
    index (and in which at least one mechanism is active), else None."""
    occs = occurrences(P, arr, sr)
    if not occs or any(pth is None for pth, m in occs):
        return None
    ties = occurrence_ties(P, arr)
    tied = [pth for pth, m in occs if pth in ties]
    if not tied:
        return None
    sum_op, prod_op = sr
    points = list(itertools.product(*[range(z) for z in arr.shape]))
    got = {x: value_at(adj, {k: v for k, v in zip(lnames, x) if k in adj.inputs})[0] for x in points}
    contrib = {}
    for pth, m in occs:
        for x in points:
            with np.errstate(all="ignore"):
                d = deriv(P, {}, arr, x, sr, only=pth)
                contrib[pth, x] = d / m if prod_op == "mul" else d - np.log(m)
    for flags in itertools.product((True, False), repeat=len(tied)):
        if not any(flags):
            continue
        bc = dict(zip(tied, flags))
        ok = True
        for x in points:
            total = UNIT[sum_op]
            for pth, m in occs:
                xx = x
                if bc.get(pth):
                    ia, ib = ties[pth]
                    xx = list(x)
                    xx[ia] = x[ib]
                    xx = tuple(xx)
                with np.errstate(all="ignore"):
                    total = BIN[sum_op](total, contrib[pth, xx])
            if not close(got[x], total, rtol=1e-6):
                ok = False
                break
        if ok:
            mech = {"diagonal-rename-constant-incoming"}
            if any(m > 1 for pth, m in occs):
                mech.add("multiplicity-of-unmentioned-reduced-vars")
            return mech
    return None


def model_matches(P, arr, sr, adj, lnames, value_at, only_points=None):
    """True iff some occurrence loses a multiplicity > 1 and the returned adjoint equals, at every point, the derivative in which
    each occurrence's contribution is divided by exactly its lost multiplicity"""
    occs = occurrences(P, arr, sr)
    if not occs or any(pth is None for pth, m in occs) or all(m == 1 for pth, m in occs):
        return False
    sum_op, prod_op = sr
    for x in itertools.product(*[range(z) for z in arr.shape]):
        if only_points is not None and not only_points(x):
            continue
        total = UNIT[sum_op]
        for pth, m in occs:
            with np.errstate(all="ignore"):
                d = deriv(P, {}, arr, x, sr, only=pth)
                d = d / m if prod_op == "mul" else d - np.log(m)
                total = BIN[sum_op](total, d)
        got = value_at(adj, {k: v for k, v in zip(lnames, x) if k in adj.inputs})[0]
        if not close(got, total, rtol=1e-6):
            return False
    return True


def multiplicity_signature(P, arr, ratios, sr):
    """returns m if (derivative / adjoint) is the same integer m>1 at every point, m is a product of sizes of reduced variables, and
    the program has the structure (a semiring-sum of branches, or a reduction over a variable its body lacks) that triggers it"""
    if not ratios or not has_sum_branch_or_absent_reduction(P, sr[0]):
        return None
    r0 = ratios[0]
    if not np.isfinite(r0) or r0 < 1.5 or abs(r0 - round(r0)) > 1e-6 or any(abs(r - r0) > 1e-6 * max(1, abs(r0)) for r in ratios):
        return None
    m = int(round(r0))
    sizes = list(reduced_var_sizes(P).values())
    prods = {1}
    for z in sizes:
        prods |= {p * z for p in prods}
    return m if m in prods else None


def plan(tier, seed):
    n = 16 if tier == "quick" else 64
    shards = [{"name": "adj-%d" % i, "n": 50 if tier == "quick" else 300, "timeout": 3000} for i in range(n)]
    nt = 8 if tier == "quick" else 24
    shards += [{"name": "targeted-%d" % i, "kind": "targeted", "n": 50 if tier == "quick" else 300, "timeout": 3000} for i in range(nt)]
    return shards


def tensor_leaves(f, acc=None, seen=None):
    """Tensor leaves of a funsor AST"""
    from funsor.tensor import Tensor
    from funsor.terms import Funsor

    if acc is None:
        acc, seen = [], set()
    if id(f) in seen:
        return acc
    seen.add(id(f))
    if isinstance(f, Tensor):
        acc.append(f)
        return acc
    if isinstance(f, Funsor):
        for c in f._ast_values:
            tensor_leaves(c, acc, seen)
    elif isinstance(f, (tuple, frozenset)):
        for c in f:
            tensor_leaves(c, acc, seen)
    elif isinstance(f, dict):
        for c in f.values():
            tensor_leaves(c, acc, seen)
    return acc


def run_shard(shard, res):
    rng = shard_rng(shard["seed"], ID, shard["name"])
    riders = Riders(res)
    for i in range(shard["n"]):
        sr = SEMIRINGS[i % 2]
        g = AdjGen(rng, sr)
        if shard.get("kind") == "targeted":
            try:
                P = g.targeted()
            except (IllTyped, Unsupported):
                continue
        else:
            P = g.program(int(rng.integers(1, 4)), fully_reduced=rng.random() < 0.85)
        if rng.random() < 0.8:
            try:
                P = uniquify_binders(P)  # main stratum: no name is bound twice (the tape un-mangles bound names back to user names)
            except Unsupported:
                pass
        run_case(P, sr, g, res, riders, rng)


def run_case(P, sr, g, res, riders, rng):
    import funsor
    from funsor import ops
    from funsor.adjoint import forward_backward
    from funsor.interpretations import reflect
    from funsor.optimizer import apply_optimizer
    from funsor.tensor import Tensor

    from ..build import build
    from ..oracle import compare, value_at

    try:
        p_inputs, p_out = typecheck(P)
    except (IllTyped, Unsupported):
        res.count("discarded-illtyped")
        return
    riders.before(P)
    sum_op, prod_op = getattr(ops, sr[0]), getattr(ops, sr[1])
    leaves = [t for t in g.leaves if contains_leaf(P, t[1])]
    p_all_free = set(p_inputs)
    case = {"P": P, "semiring": list(sr)}
    any_ok = 0
    pts = 0
    for route in ("direct", "optimizer"):
        try:
            with np.errstate(all="ignore"):
                with reflect:
                    expr = build(P)
                    if route == "optimizer":
                        expr = apply_optimizer(expr)
                fwd, bwd = forward_backward(sum_op, prod_op, expr)
        except Exception as e:
            res.count("route:%s:declined:%s" % (route, type(e).__name__))
            continue
        riders.hold(fwd)
        # forward value equals ordinary evaluation
        try:
            v = compare(fwd, P, rng, max_points=64)
        except Exception as e:
            res.count("harness:oracle-exception:%s" % type(e).__name__)
            continue
        res.count("forward:%s" % v.status)
        if v.status == "bad":
            res.violation("adjoint:forward", "[%s %s,%s] forward value differs: %s | %s" % (route, sr[0], sr[1], v.detail, show(P)[:400]), case=case)
            continue
        # adjoints: decided for fully reduced roots, where "sum over all variables the leaf does not mention" is unambiguous.
        # (With free root inputs funsor keeps some of them as indices of the adjoint and sums others out through Scatter; the
        # property's formula does not say which, so those programs only contribute the forward-value check.)
        if p_inputs:
            res.count("adjoint:skipped-root-has-free-inputs")
            continue
        ast_leaves = tensor_leaves(expr)
        p_arrays = arrays_of(P)
        # a Tensor whose data is none of the program's arrays was made by an executed substitution (indexing / slicing copies the data)
        foreign = [L for L in ast_leaves if not any(L.data is a for a in p_arrays)]
        for t in leaves:
            arr, names = t[1], t[2]
            occ = [L for L in ast_leaves if L.data is arr]
            # the tape reports adjoints for leaves with alpha-renaming undone: strip the mangling from the names found in the AST
            # (several uses of one leaf are one cons-hashed Tensor: the tape accumulates their adjoints under that one key)
            if not occ or (foreign and len(occ) != count_occurrences(P, arr)):
                # an executed substitution (e.g. advanced indexing under the optimizer) copied the data into a new leaf: the
                # tape then reports that occurrence under another key, so the total derivative cannot be read off one entry
                res.count("adjoint:leaf-copied-by-executed-substitution")
                continue
            keys = {tuple(n.split("__BOUND")[0] for n in L.inputs) for L in occ}
            if len(keys) != 1:
                res.count("adjoint:leaf-has-%d-distinct-forms-in-ast" % len(keys))
                continue
            lnames = list(next(iter(keys)))   # positionally the leaf's dims (possibly renamed by an executed substitution)
            L = Tensor(arr, OrderedDict((n, d) for n, d in zip(lnames, occ[0].inputs.values())))
            adj = funsor.to_funsor(bwd[L])
            root_inputs = {k: d for k, d in p_inputs.items()}
            extra = [k for k in adj.inputs if k not in L.inputs and k not in fwd.inputs]
            if extra:
                res.violation("adjoint:inputs", "[%s] adjoint of leaf %s has inputs %s beyond the leaf's %s and the root's %s | %s" % (
                    route, list(names), extra, lnames, list(fwd.inputs), show(P)[:300]), case=case)
                continue
            bad = None
            n = 0
            ratios = []
            try:
                for x in itertools.product(*[range(s) for s in arr.shape]):
                    # root point: every free input of the program; names shared with the leaf are tied to the leaf index
                    shared = {nm: xi for nm, xi in zip(lnames, x) if nm in p_inputs}
                    free = [(k, d) for k, d in p_inputs.items() if k not in shared and d[0] != "real"]
                    for rpt in itertools.islice(itertools.product(*[range(d[0]) for k, d in free]), 16):
                        env = dict(shared)
                        env.update({k: v for (k, d), v in zip(free, rpt)})
                        with np.errstate(all="ignore"):
                            want = deriv(P, env, arr, x, sr)
                        aenv = dict(env)
                        aenv.update(zip(lnames, x))
                        got = value_at(adj, {k: aenv[k] for k in adj.inputs})[0]
                        n += 1
                        if np.isnan(want):
                            continue
                        with np.errstate(all="ignore"):
                            try:
                                ratios.append(float(np.float64(want) / np.float64(got)) if sr[1] == "mul" else float(np.exp(np.float64(want) - np.float64(got))))
                            except Exception:
                                ratios.append(float("nan"))
                        if not close(got, want, rtol=1e-6) and bad is None:
                            bad = "adjoint of leaf with inputs %s at index %s (root point %s) is %s, the semiring derivative is %s" % (list(names), x, env, got, want)
            except Unsupported as e:
                res.count("adjoint:undecided:%s" % str(e)[:30])
                continue
            except KeyError as e:
                res.count("adjoint:undecided-missing-input")
                continue
            if bad:
                res.count("adjoint:bad")
                key = "value" if route == "direct" else "value-optimized"
                # known mechanism: the adjoint of a (+)-branch (or of a body) that does not mention some reduced variables lacks
                # exactly their multiplicity (the adjoint passed down has no input to aggregate over)
                m = None
                try:
                    # the structure that decides which multiplicities the tape loses is that of the expression actually differentiated
                    from ..lift import lift

                    E = contr_to_basic(lift(expr))
                    m = model_matches(E, arr, sr, adj, lnames, value_at)
                except Exception as e:
                    res.count("adjoint:model-undecided:%s" % type(e).__name__)
                bn = bound_names(P)
                if m:
                    key = "multiplicity-of-unmentioned-reduced-vars"
                elif _safe(lambda: general_model_matches(E, arr, sr, adj, lnames, value_at)):
                    mech = general_model_matches(E, arr, sr, adj, lnames, value_at)
                    key = "diagonal-rename-constant-incoming" + ("+multiplicity-of-unmentioned-reduced-vars" if len(mech) > 1 else "")
                elif len(bn) != len(set(bn)) or any(b in p_all_free for b in bn):
                    key = "same-user-name-bound-twice"
                res.violation("adjoint:%s" % key, "[%s %s,%s] %s | %s" % (route, sr[0], sr[1], bad, show(P)[:400]), case=case)
            else:
                res.count("adjoint:ok")
                res.count("route:%s:adjoint-ok" % route)
                any_ok += 1
                pts += n
    for f in g.features:
        res.count("leaf-feature:" + f)
    nontriv = any_ok >= 1 and len(leaves) >= 2 and pts >= 2
    res.case(key=digest((sr, P)) if nontriv else None, nontrivial=nontriv,
             sample={"semiring": list(sr), "program": show(P)[:300], "leaves": len(leaves), "adjoints_ok": any_ok, "features": sorted(g.features)} if nontriv else None)
    muts, rep = riders.after(None)
    for m in muts:
        res.violation("rider:mutation", "%s | %s" % (m, show(P)[:300]), case=case)
    if rep:
        res.violation("rider:stack", "%s | %s" % (rep, show(P)[:300]), case=case)


def workload(rng, n):
    from funsor import ops
    from funsor.adjoint import forward_backward
    from funsor.interpretations import reflect

    from ..build import build

    for i in range(n):
        sr = SEMIRINGS[i % 2]
        g = AdjGen(rng, sr)
        P = g.program(int(rng.integers(1, 4)), True)

        def thunk(P=P, sr=sr):
            with reflect:
                expr = build(P)
            return forward_backward(getattr(ops, sr[0]), getattr(ops, sr[1]), expr)[0]

        yield "adjoint(%s,%s)" % sr, P, thunk
