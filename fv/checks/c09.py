"""C09 Plated sum-product equals brute-force unrolling.

Oracle: the fully unrolled joint table: every eliminated variable is replicated once per index of the eliminated plates in its
ordinal, every factor is instantiated once per index of its eliminated plates, factors are multiplied and copies summed out.
"""
import itertools

import numpy as np

from ..common import close, digest, shard_rng, short
from ..monitors import Riders

ID = "C09"
LEVEL = "exploration"
RULE = ("plated factor graphs: <=5 tensor factors over <=4 variables (sizes 1-3) and <=3 plates (sizes 1-3), each factor containing a random "
        "subset (random graphs) or every subset pattern (exhaustive tiny graphs: <=3 factors, <=2 vars, <=2 plates); every eliminate set "
        "(tiny) or random eliminate sets; 5 semirings; entry points sum_product, partial_sum_product in one call and in two successive "
        "calls over a closed split, modified_/dynamic_partial_sum_product with empty Markov steps, plated einsum, pedantic=True, integer "
        "plate scales vs tiling; optional free real parameter on a factor; graphs that cannot be eliminated exactly (two variables in incomparable "
        "plate sets joined inside both) must raise ValueError from every entry point. Non-trivial: >=1 plate or >=2 factors, value compared at every "
        "kept point; distinct by (semiring, graph structure, eliminate set, sizes)")
ASSUMPTIONS = ["numpy arithmetic for the unrolled table", "oracle undefined when a preserved variable lives in an eliminated plate (only the pedantic error is checked there)"]
MIN_NONTRIVIAL = {"quick": 800, "thorough": 8000}
REQUIRED_COUNTERS = ["sum_product:ok", "partial-two-calls:ok", "modified:ok", "dynamic:ok", "einsum-plated:ok", "pedantic:raised-as-required", "scale:ok", "intractable:raised-as-required"]

NPB = {"add": np.add, "mul": np.multiply, "logaddexp": np.logaddexp, "max": np.maximum, "min": np.minimum}
UNIT = {"add": 0.0, "mul": 1.0, "logaddexp": -np.inf, "max": -np.inf, "min": np.inf}
SEMIRINGS = [("add", "mul"), ("logaddexp", "add"), ("max", "add"), ("min", "add"), ("max", "mul")]


def ordinals(factors, plates):
    """ordinal of each variable = intersection of the plate sets of the factors containing it"""
    ordv = {}
    for names, _ in factors:
        fp = frozenset(n for n in names if n in plates)
        for n in names:
            if n not in plates:
                ordv[n] = ordv[n] & fp if n in ordv else fp
    return ordv


def brute(sum_op, prod_op, factors, sizes, plates, eliminate, xval=None):
    """returns (keep_names, {point: value}) or None when undefined. factors: list of (names, array[, uses_x])"""
    ordv = ordinals([(f[0], f[1]) for f in factors], plates)
    allvars = sorted(ordv)
    elim_plates = sorted(p for p in plates if p in eliminate)
    keep_plates = sorted(p for p in plates if p not in eliminate)
    free_vars = [v for v in allvars if v not in eliminate]
    for v in free_vars:
        if ordv[v] & set(elim_plates):
            return None
    keep_names = keep_plates + free_vars
    results = {}
    copies = []
    for v in allvars:
        if v in eliminate:
            ps = sorted(ordv[v] & set(elim_plates))
            for idx in itertools.product(*[range(sizes[p]) for p in ps]):
                copies.append((v, tuple(zip(ps, idx))))
    ncopies = 1
    for v, _ in copies:
        ncopies *= sizes[v]
    if ncopies > 60000:
        return "too-large"
    for keep_pt in itertools.product(*[range(sizes[n]) for n in keep_names]):
        kenv = dict(zip(keep_names, keep_pt))
        total = None
        for vals in itertools.product(*[range(sizes[v]) for v, _ in copies]):
            cenv = dict(zip(copies, vals))
            prod = None
            for f in factors:
                names, data = f[0], f[1]
                eps = [p for p in names if p in elim_plates]
                for pidx in itertools.product(*[range(sizes[p]) for p in eps]):
                    penv = dict(zip(eps, pidx))
                    index = []
                    for n in names:
                        if n in plates:
                            index.append(penv[n] if n in penv else kenv[n])
                        elif n in eliminate:
                            key = (n, tuple((p, penv[p]) for p in sorted(ordv[n] & set(elim_plates))))
                            index.append(cenv[key])
                        else:
                            index.append(kenv[n])
                    val = data[tuple(index)]
                    if len(f) > 2 and f[2]:
                        val = NPB[prod_op](val, xval)
                    prod = val if prod is None else NPB[prod_op](prod, val)
            if prod is None:
                prod = UNIT[prod_op]
            total = prod if total is None else NPB[sum_op](total, prod)
        if total is None:
            total = UNIT[sum_op]
        results[keep_pt] = total
    return keep_names, results


def plan(tier, seed):
    shards = []
    n = 12 if tier == "quick" else 40
    for i in range(n):
        shards.append({"name": "random-%d" % i, "kind": "random", "n": 90 if tier == "quick" else 500, "timeout": 3000})
    for i in range(2 if tier == "quick" else 8):
        shards.append({"name": "intractable-%d" % i, "kind": "intractable", "n": 60 if tier == "quick" else 250, "timeout": 3000})
    ne = 8 if tier == "quick" else 24
    for i in range(ne):
        shards.append({"name": "tiny-%d" % i, "kind": "tiny", "index": i, "of": ne, "timeout": 3000})
    return shards


def to_funsors(factors, sizes, x=None):
    from collections import OrderedDict

    from funsor.domains import Bint
    from funsor.tensor import Tensor

    out = []
    for f in factors:
        t = Tensor(f[1], OrderedDict((n, Bint[sizes[n]]) for n in f[0]))
        if len(f) > 2 and f[2]:
            t = f[3](t, x)
        out.append(t)
    return out


def read_result(r, keep_names, sizes, xval=None):
    """dict point -> value of a funsor result over keep_names (inputs may be a subset)"""
    import funsor
    from funsor.tensor import Tensor
    from funsor.terms import Number

    r = funsor.to_funsor(r)
    if xval is not None and "x" in r.inputs:
        r = r(x=Tensor(np.asarray(xval)))
    extra = set(r.inputs) - set(keep_names)
    if extra:
        return None, "result has inputs %s outside the kept names %s" % (sorted(extra), keep_names)
    if isinstance(r, Number):
        data, names = np.asarray(r.data), ()
    elif isinstance(r, Tensor):
        data, names = np.asarray(r.data), tuple(r.inputs)
    else:
        return None, "lazy:%s" % type(r).__name__
    out = {}
    for pt in itertools.product(*[range(sizes[n]) for n in keep_names]):
        env = dict(zip(keep_names, pt))
        out[pt] = data[tuple(env[n] for n in names)]
    return out, None


def compare_tables(got, want):
    for pt, w in want.items():
        if np.isnan(w):
            continue
        if not close(got[pt], w, rtol=1e-6):
            return "at %s got %s expected %s" % (pt, got[pt], w)
    return None


def closed_splits(eliminate, plates, ordv, factors):
    """splits E = E1 + E2 for which two successive calls denote the same unrolled model as one call:
    (a) no variable left for later lives in a plate eliminated by call 1;
    (b) a variable eliminated by call 1 is not shared across instances of a plate that is only eliminated later
        (every later-eliminated plate of every factor containing it belongs to its ordinal)."""
    el = sorted(eliminate)
    for r in range(1, len(el)):
        for e1 in itertools.combinations(el, r):
            e1 = frozenset(e1)
            e2 = frozenset(eliminate) - e1
            ok = True
            for v, o in ordv.items():
                if v not in e1 and o & e1:
                    ok = False
                if v in e1:
                    for names in factors:
                        if v in names and any(n in plates and n in e2 and n not in o for n in names):
                            ok = False
            if ok:
                yield e1, e2


def run_graph(factors, sizes, plates, eliminate, sr, res, riders, rng, real_param=False, tag="", intractable=False):
    import funsor
    from funsor import ops
    from funsor.sum_product import (dynamic_partial_sum_product, modified_partial_sum_product, partial_sum_product, sum_product)
    from funsor.terms import Variable
    from funsor.domains import Real
    from functools import reduce

    s, p = sr
    sum_op, prod_op = getattr(ops, s), getattr(ops, p)
    plates = frozenset(plates)
    eliminate = frozenset(eliminate)
    xval = 0.75 if real_param else None
    x = Variable("x", Real) if real_param else None
    if real_param:
        factors = [tuple(f[:2]) + ((i == 0), prod_op) for i, f in enumerate(factors)]
    riders.before([f[1] for f in factors])
    exp = brute(s, p, factors, sizes, plates, eliminate, xval)
    struct = (sr, tuple(f[0] for f in factors), tuple(sorted(plates)), tuple(sorted(eliminate)), tuple(sorted(sizes.items())), real_param)
    case = {"semiring": list(sr), "factors": [list(f[0]) for f in factors], "plates": sorted(plates), "eliminate": sorted(eliminate), "sizes": sizes,
            "data": [f[1] for f in factors], "real_param": real_param}
    ordv = ordinals([(f[0], f[1]) for f in factors], plates)
    undefined = exp is None
    if exp == "too-large":
        res.count("skipped:oracle-too-large")
        return
    fs = to_funsors(factors, sizes, x)

    def check(label, thunk, want_table=None):
        want = exp if want_table is None else want_table
        try:
            with np.errstate(all="ignore"):
                r = thunk()
        except ValueError as e:
            res.count("%s:ValueError" % label)
            if intractable:
                res.count("intractable:raised-as-required")
            return "raised"
        except Exception as e:
            res.count("%s:declined:%s" % (label, type(e).__name__))
            if intractable:
                res.violation("plated:intractable-not-valueerror", "%s(%s,%s) raised %s (%s) on a graph that cannot be eliminated exactly; a ValueError is required | factors=%s plates=%s eliminate=%s sizes=%s" % (
                    label, s, p, type(e).__name__, str(e)[:80], [f[0] for f in factors], sorted(plates), sorted(eliminate), sizes), case=case)
            return "raised"
        if undefined:
            res.count("%s:value-when-oracle-undefined" % label)
            return "undefined"
        keep_names, table = want
        got, err = read_result(r, keep_names, sizes, xval)
        if err and err.startswith("lazy"):
            res.count("%s:%s" % (label, err))
            return "lazy"
        msg = err or compare_tables(got, table)
        if msg:
            res.count("%s:bad" % label)
            res.violation("plated:%s" % label, "%s(%s,%s) %s | factors=%s plates=%s eliminate=%s sizes=%s%s" % (
                label, s, p, msg, [f[0] for f in factors], sorted(plates), sorted(eliminate), sizes, " +real param" if real_param else ""), case=case)
            return "bad"
        res.count("%s:ok" % label)
        return "ok"

    st = check("sum_product", lambda: sum_product(sum_op, prod_op, fs, eliminate, plates))
    check("partial-one-call", lambda: reduce(prod_op, partial_sum_product(sum_op, prod_op, fs, eliminate, plates), funsor.terms.Number(UNIT[p])))
    if not undefined:
        for e1, e2 in itertools.islice(closed_splits(eliminate, plates, ordv, [f[0] for f in factors]), 6):
            def two(e1=e1, e2=e2):
                mid = partial_sum_product(sum_op, prod_op, fs, e1, plates)
                return reduce(prod_op, partial_sum_product(sum_op, prod_op, mid, e2, plates), funsor.terms.Number(UNIT[p]))
            check("partial-two-calls", two)
    # two successive calls of the modified variant, every eliminated plate declared in both calls' plate_to_step
    if not undefined:
        allp = {pl: frozenset() for pl in plates if pl in eliminate}
        for e1, e2 in itertools.islice(closed_splits(eliminate, plates, ordv, [f[0] for f in factors]), 4):
            def two_mod(e1=e1, e2=e2):
                mid = modified_partial_sum_product(sum_op, prod_op, fs, e1, dict(allp))
                return reduce(prod_op, modified_partial_sum_product(sum_op, prod_op, mid, e2, dict(allp)), funsor.terms.Number(UNIT[p]))
            check("modified-two-calls", two_mod)
    # plates that are not eliminated are ordinary batch inputs (partial_sum_product itself ignores them via `plates &= eliminate`)
    pts = {pl: frozenset() for pl in plates if pl in eliminate}
    check("modified", lambda: reduce(prod_op, modified_partial_sum_product(sum_op, prod_op, fs, eliminate, dict(pts)), funsor.terms.Number(UNIT[p])))
    check("dynamic", lambda: reduce(prod_op, dynamic_partial_sum_product(sum_op, prod_op, fs, eliminate, dict(pts)), funsor.terms.Number(UNIT[p])))
    # pedantic: preserved variable inside an eliminated plate must raise
    if undefined:
        try:
            sum_product(sum_op, prod_op, fs, eliminate, plates, pedantic=True)
            res.violation("plated:pedantic-no-error", "pedantic=True returned a value although a preserved variable lives in an eliminated plate | factors=%s plates=%s eliminate=%s" % (
                [f[0] for f in factors], sorted(plates), sorted(eliminate)), case=case)
        except ValueError:
            res.count("pedantic:raised-as-required")
        except Exception as e:
            res.count("pedantic:other-exception:%s" % type(e).__name__)
    else:
        check("pedantic", lambda: sum_product(sum_op, prod_op, fs, eliminate, plates, pedantic=True))
    # plated einsum front end (single-character names only; output = kept names; backends fix the semiring)
    backend = {("add", "mul"): "numpy", ("logaddexp", "add"): "funsor.einsum.numpy_log", ("max", "add"): "funsor.einsum.numpy_map"}.get(sr)
    if backend and not undefined and not real_param and all(len(n) == 1 for n in sizes):
        from funsor.einsum import einsum

        keep_names = exp[0]
        kept_plates = [n for n in keep_names if n in plates]
        if all(set(kept_plates) <= set(f[0]) for f in factors):
            eq = ",".join("".join(f[0]) for f in factors) + "->" + "".join(keep_names)
            used = set("".join("".join(f[0]) for f in factors))
            if set(eliminate) <= used and set(keep_names) <= used:
                check("einsum-plated", lambda: einsum(eq, *fs, plates="".join(sorted(plates)), backend=backend))
    # integer plate scales act as exponents: equal to tiling the plate
    el_plates = [pl for pl in plates if pl in eliminate]
    if el_plates and not undefined and not real_param and st == "ok":
        pl = el_plates[int(rng.integers(len(el_plates)))]
        k = int(rng.integers(2, 4))
        tiled = []
        for f in factors:
            if pl in f[0]:
                ax = f[0].index(pl)
                tiled.append((f[0], np.concatenate([f[1]] * k, axis=ax)))
            else:
                tiled.append((f[0], f[1]))
        sizes2 = dict(sizes)
        sizes2[pl] = sizes[pl] * k
        exp2 = brute(s, p, tiled, sizes2, plates, eliminate)
        if exp2 not in (None, "too-large"):
            # kept names never include the scaled (eliminated) plate, so the tables are comparable point by point
            check("scale", lambda: sum_product(sum_op, prod_op, fs, eliminate, plates, plate_to_scale={pl: k}), want_table=exp2)
    nontriv = (len(plates) >= 1 or len(factors) >= 2) and st == "ok"
    res.case(key=digest(struct) if nontriv else None, nontrivial=nontriv,
             sample={"semiring": list(sr), "factors": ["".join(f[0]) for f in factors], "plates": sorted(plates), "eliminate": sorted(eliminate), "sizes": sizes} if nontriv else None)
    muts, rep = riders.after(None)
    for m in muts:
        res.violation("rider:mutation", "%s during sum_product on %s" % (m, [f[0] for f in factors]), case=case)
    if rep:
        res.violation("rider:stack", rep, case=case)


def run_shard(shard, res):
    rng = shard_rng(shard["seed"], ID, shard["name"])
    riders = Riders(res)
    if shard["kind"] == "random":
        for _ in range(shard["n"]):
            nplates = int(rng.integers(0, 4))
            nvars = int(rng.integers(1, 5))
            nf = int(rng.integers(1, 6))
            plates = ["p", "q", "r"][:nplates]
            vars_ = ["a", "b", "c", "d"][:nvars]
            sizes = {n: int(rng.integers(1, 4)) for n in plates}
            sizes.update({v: int(rng.integers(1, 4)) for v in vars_})
            sr = SEMIRINGS[int(rng.integers(len(SEMIRINGS)))]
            factors = []
            for _f in range(nf):
                names = [n for n in plates + vars_ if rng.random() < 0.5]
                rng.shuffle(names)
                data = np.round(rng.random(tuple(sizes[n] for n in names)) * 1.5 + 0.25, 2)
                factors.append((tuple(names), data))
            eliminate = {n for n in plates + vars_ if rng.random() < 0.7}
            run_graph(factors, sizes, plates, eliminate, sr, res, riders, rng, real_param=rng.random() < 0.15)
        return
    if shard["kind"] == "intractable":
        # graphs that cannot be eliminated exactly: two variables living in incomparable plate sets are joined by a factor inside both
        # plate sets; with everything eliminated every entry point must raise ValueError (or return the brute-force value), never
        # another exception or another number
        for _ in range(shard["n"]):
            extra_plate = rng.random() < 0.4
            pa, pb = ["p"], (["q", "r"] if extra_plate else ["q"])
            if rng.random() < 0.5:
                pa, pb = pb, pa
            plates = sorted(set(pa + pb))
            sizes = {n: int(rng.integers(1, 3)) for n in plates}
            sizes.update({"a": int(rng.integers(2, 4)), "b": int(rng.integers(2, 4)), "c": 2})
            groups = [["a"] + pa, ["b"] + pb, ["a", "b"] + plates]
            if rng.random() < 0.4:
                groups.append(["c"] + (plates if rng.random() < 0.5 else []))
                if rng.random() < 0.5:
                    groups[2] = groups[2] + ["c"]
            factors = []
            for names in groups:
                names = list(names)
                rng.shuffle(names)
                factors.append((tuple(names), np.round(rng.random(tuple(sizes[n] for n in names)) * 1.5 + 0.25, 2)))
            order = rng.permutation(len(factors))
            factors = [factors[i] for i in order]
            used = set().union(*[set(f[0]) for f in factors])
            sr = SEMIRINGS[int(rng.integers(len(SEMIRINGS)))]
            res.count("intractable:graphs")
            run_graph(factors, sizes, plates, used, sr, res, riders, rng, intractable=True)
        return
    # exhaustive tiny graphs: <=3 factors over subsets of {a, b, p, q}, every eliminate set
    names = ["p", "q", "a", "b"]
    subsets = [tuple(c) for r in range(0, 4) for c in itertools.combinations(names, r)]
    graphs = []
    for nf in (1, 2, 3):
        for combo in itertools.combinations_with_replacement(subsets, nf):
            used = set().union(*map(set, combo))
            if not used or len(used) > 4:
                continue
            graphs.append(combo)
    count = 0
    for gi, combo in enumerate(graphs):
        if gi % shard["of"] != shard["index"]:
            continue
        if shard["tier"] == "quick" and len(combo) == 3 and (gi // shard["of"]) % 4:
            continue
        used = sorted(set().union(*map(set, combo)))
        plates = [n for n in used if n in ("p", "q")]
        sizes = {n: 2 for n in used}
        if "q" in sizes:
            sizes["q"] = 1 + (gi % 2)
        factors = [(c, np.round(rng.random(tuple(sizes[n] for n in c)) * 1.5 + 0.25, 2)) for c in combo]
        elim_sets = [frozenset(c) for r in range(0, len(used) + 1) for c in itertools.combinations(used, r)]
        sr = SEMIRINGS[gi % len(SEMIRINGS)]
        for el in elim_sets:
            run_graph(factors, sizes, plates, el, sr, res, riders, rng)
            count += 1


def workload(rng, n):
    """thunks for cross-cutting monitors (C02/C06/C20)"""
    from funsor import ops
    from funsor.sum_product import sum_product

    for _ in range(n):
        nplates = int(rng.integers(0, 3))
        nvars = int(rng.integers(1, 4))
        plates = ["p", "q"][:nplates]
        vars_ = ["a", "b", "c"][:nvars]
        sizes = {k: int(rng.integers(1, 4)) for k in plates + vars_}
        sr = SEMIRINGS[int(rng.integers(len(SEMIRINGS)))]
        factors = []
        for _f in range(int(rng.integers(1, 5))):
            names = [k for k in plates + vars_ if rng.random() < 0.5]
            factors.append((tuple(names), np.round(rng.random(tuple(sizes[k] for k in names)) * 1.5 + 0.25, 2)))
        eliminate = frozenset(k for k in plates + vars_ if rng.random() < 0.7)
        fs_holder = [f[1] for f in factors]

        def thunk(factors=factors, sizes=sizes, sr=sr, eliminate=eliminate, plates=plates):
            fs = to_funsors(factors, sizes)
            return sum_product(getattr(ops, sr[0]), getattr(ops, sr[1]), fs, eliminate, frozenset(plates))

        yield "sum_product(%s,%s)" % sr, fs_holder, thunk
