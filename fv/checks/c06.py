"""C06 Declared types match actual values.

(a,b) M06 type monitor on `reflect.interpret` (the only constructor of funsors): every freshly built term must declare the inputs and
      output that the independent typing rules (fv/ir.py) derive from its children's declared types; every Tensor's array must have the
      declared batch+event shape, dtype category and bounded-integer range.
(c)   lazy declaration vs eager result on generated programs.
(d)   op catalogue: find_domain(op, *domains) vs the shape / exact value range the op produces on arrays of those domains.
"""
import itertools
from collections import OrderedDict

import numpy as np

from ..common import digest, shard_rng, short
from ..ir import IllTyped, Unsupported, binary_output, bshape, merge_inputs, show, typecheck, unary_output
from ..lift import _opname, _params, dom_of
from ..monitors import Riders

ID = "C06"
LEVEL = "exploration"
RULE = ("(a,b) every term constructed by any engine (monitor on reflect.interpret): one-step typing check against fv/ir.py rules, Tensor data "
        "shape/dtype/range; (c) E1/E4 programs: lazily built declaration == typing rules, eager output == lazy output, eager inputs subset; "
        "(d) catalogue: every unary/binary/reduction/getitem/getslice/reshape/stack/cat/einsum op x operand domains of rank<=3, sizes<=4, real "
        "and bounded-int x every parameter (all axes/tuples, keepdims, indices, offsets): find_domain vs numpy on arrays; bounded-int images "
        "enumerated exhaustively. A case is a distinct (term class, child types) / (op, domains, params); non-trivial: all")
ASSUMPTIONS = ["typing rules of fv/ir.py (written from the documentation, never calling find_domain)", "numpy for actual shapes and values"]
MIN_NONTRIVIAL = {"quick": 2000, "thorough": 10000}
REQUIRED_COUNTERS = ["M06:terms-checked", "M06:tensors-checked", "lazy-vs-eager:ok", "catalogue:ok", "int-arith:ok"]


# ---------------------------------------------------------------------------
# M06


def typed(f):
    return ("typed", OrderedDict((k, dom_of(d)) for k, d in f.inputs.items()), dom_of(f.output))


def expected_type(term):
    """(inputs, output) predicted by the typing rules from the declared types of the term's children; None if no rule applies"""
    import funsor.terms as T
    from funsor.cnf import Contraction
    from funsor.tensor import Tensor

    def ti(f):
        return OrderedDict((k, dom_of(d)) for k, d in f.inputs.items())

    if isinstance(term, T.Variable):
        return OrderedDict([(term.name, dom_of(term._ast_values[1]))]), dom_of(term._ast_values[1])
    if isinstance(term, T.Number):
        return OrderedDict(), (term.dtype, ())
    if isinstance(term, Tensor):
        data, inputs, dtype = term._ast_values
        inputs = OrderedDict(inputs)
        return OrderedDict((k, dom_of(d)) for k, d in inputs.items()), (dtype, tuple(int(s) for s in data.shape[len(inputs):]))
    if isinstance(term, T.Unary):
        return ti(term.arg), unary_output(_opname(term.op), _params(term.op), dom_of(term.arg.output))
    if isinstance(term, T.Binary):
        return merge_inputs(ti(term.lhs), ti(term.rhs)), binary_output(_opname(term.op), _params(term.op), dom_of(term.lhs.output), dom_of(term.rhs.output))
    if isinstance(term, T.Reduce):
        names = {v.name for v in term.reduced_vars}
        return OrderedDict((k, d) for k, d in ti(term.arg).items() if k not in names), dom_of(term.arg.output)
    if isinstance(term, T.Subs):
        rest = OrderedDict((k, d) for k, d in ti(term.arg).items() if k not in term.subs)
        return merge_inputs(rest, *[ti(v) for v in term.subs.values()]), dom_of(term.arg.output)
    if isinstance(term, T.Stack):
        return merge_inputs(OrderedDict([(term.name, (len(term.parts), ()))]), *[ti(p) for p in term.parts]), dom_of(term.parts[0].output)
    if isinstance(term, T.Cat):
        total = sum(p.inputs[term.part_name].size for p in term.parts)
        rest = merge_inputs(*[OrderedDict((k, d) for k, d in ti(p).items() if k != term.part_name) for p in term.parts])
        return merge_inputs(rest, OrderedDict([(term.name, (total, ()))])), dom_of(term.parts[0].output)
    if isinstance(term, T.Lambda):
        o = dom_of(term.expr.output)
        return OrderedDict((k, d) for k, d in ti(term.expr).items() if k != term.var.name), (o[0], (term.var.output.size,) + o[1])
    if isinstance(term, T.Independent):
        fi = ti(term.fn)
        rest = OrderedDict((k, d) for k, d in fi.items() if k not in (term.bint_var, term.diag_var))
        rest[term.reals_var] = ("real", (fi[term.bint_var][0],) + fi[term.diag_var][1])
        return rest, dom_of(term.fn.output)
    if isinstance(term, Contraction):
        names = {v.name for v in term.reduced_vars}
        inp = merge_inputs(*[ti(t) for t in term.terms])
        out = dom_of(term.terms[0].output)
        for t in term.terms[1:]:
            out = binary_output(_opname(term.bin_op), (), out, dom_of(t.output))
        return OrderedDict((k, d) for k, d in inp.items() if k not in names), out
    if isinstance(term, T.Slice):
        name, start, stop, step, dtype = term._ast_values
        return OrderedDict([(name, (len(range(start, stop, step)), ()))]), (dtype, ())
    if isinstance(term, T.Align):
        return ti(term.arg), dom_of(term.arg.output)
    return None


class TypeMonitor:
    def __init__(self, res):
        from funsor.interpretations import reflect

        self.res = res
        self.problems = []
        self.seen = set()
        mon = self
        if getattr(reflect.interpret, "_fv_wrapped", False):
            self.orig = None
            return
        orig = reflect.interpret
        self.orig = orig

        def interpret(cls, *args):
            r = orig(cls, *args)
            try:
                mon.check(r)
            except Exception as e:  # the monitor must never disturb construction
                mon.res.count("M06:monitor-error:%s" % type(e).__name__)
            return r

        interpret._fv_wrapped = True
        reflect.interpret = interpret

    def check(self, term):
        from funsor.tensor import Tensor

        if id(term) in self.seen:
            return
        if len(self.seen) > 200000:
            self.seen.clear()
        self.seen.add(id(term))
        res = self.res
        if isinstance(term, Tensor):
            res.count("M06:tensors-checked")
            data = term.data
            want = tuple(d.size for d in term.inputs.values()) + tuple(term.output.shape)
            if tuple(data.shape) != want:
                self.problems.append(("tensor-shape", "Tensor declares inputs %s and output %s but its array has shape %s" % (dict(term.inputs), term.output, data.shape)))
            kind = np.asarray(data).dtype.kind
            if term.dtype == "real":
                if kind not in "fiub":
                    self.problems.append(("tensor-dtype", "Tensor declared real holds dtype %s" % np.asarray(data).dtype))
            else:
                if kind == "f":
                    self.problems.append(("tensor-dtype", "Tensor declared Bint[%s] holds floating data" % term.dtype))
                elif data.size and kind in "iub":
                    lo, hi = int(np.min(data)), int(np.max(data))
                    if lo < 0 or hi >= int(term.dtype):
                        self.problems.append(("bint-range", "Tensor declared Bint[%s] holds values in [%d, %d] | inputs %s" % (term.dtype, lo, hi, list(term.inputs))))
        try:
            exp = expected_type(term)
        except (IllTyped, Unsupported) as e:
            res.count("M06:undecided:%s" % type(e).__name__)
            return
        if exp is None:
            res.count("M06:no-rule:%s" % type(term).__name__)
            return
        res.count("M06:terms-checked")
        res.observe("M06:classes", type(term).__name__.split("[")[0])
        got_in = {k: dom_of(d) for k, d in term.inputs.items()}
        got_out = dom_of(term.output)
        # compare modulo alpha-renaming of bound names (children already carry the mangled names)
        if dict(exp[0]) != got_in:
            self.problems.append(("declared-inputs:%s" % type(term).__name__.split("[")[0], "%s declares inputs %s, typing rule gives %s | %s" % (
                type(term).__name__.split("[")[0], got_in, dict(exp[0]), str(term)[:200].replace("\n", " "))))
        if exp[1] != got_out:
            kind = "declared-output"
            if exp[1][1] == got_out[1] and exp[1][0] != "real" and got_out[0] != "real":
                kind = "bint-size"
            opn = _opname(term.op) if hasattr(term, "op") else type(term).__name__.split("[")[0]
            self.problems.append(("%s:%s" % (kind, opn), "%s declares output %s, typing rule gives %s | %s" % (
                type(term).__name__.split("[")[0], got_out, exp[1], str(term)[:200].replace("\n", " "))))
        bound = getattr(term, "bound", None) or {}
        both = [n for n in bound if n in term.inputs]
        if both:
            self.problems.append(("bound-and-input", "names %s are both bound and inputs of a %s" % (both, type(term).__name__)))

    def drain(self):
        p = self.problems
        self.problems = []
        return p


# ---------------------------------------------------------------------------


def plan(tier, seed):
    per = {"E1": 300, "E1-routes": 120, "E2": 300, "E3": 200, "E4": 200, "E5-plated": 60, "E6-markov": 50, "E7-adjoint": 50,
           "E8-gaussian": 80, "E10-sampling": 60, "E14-compiler": 80, "E12-synth": 150}
    reps = 1 if tier == "quick" else 6
    shards = [{"name": "monitor-%s-%d" % (eng, r), "kind": "monitor", "engine": eng, "n": n, "timeout": 3000} for r in range(reps) for eng, n in per.items()]
    for i in range(4 if tier == "quick" else 16):
        shards.append({"name": "lazy-vs-eager-%d" % i, "kind": "lve", "n": 400 if tier == "quick" else 1500, "timeout": 3000})
    nc = 6 if tier == "quick" else 12
    for i in range(nc):
        shards.append({"name": "catalogue-%d" % i, "kind": "catalogue", "index": i, "of": nc, "timeout": 3000})
    return shards


def run_shard(shard, res):
    rng = shard_rng(shard["seed"], ID, shard["name"])
    if shard["kind"] == "monitor":
        return run_monitor(shard, res, rng)
    if shard["kind"] == "lve":
        return run_lve(shard, res, rng)
    return run_catalogue(shard, res, rng)


def run_monitor(shard, res, rng):
    from ..workloads import engines

    riders = Riders(res)
    mon = TypeMonitor(res)
    for label, holder, thunk in engines()[shard["engine"]](rng, shard["n"]):
        riders.before(holder)
        try:
            with np.errstate(all="ignore"):
                thunk()
        except Exception as e:
            res.count("workload-declined:%s" % type(e).__name__)
        for key, msg in mon.drain():
            res.case(key=digest((key, msg[:120])), nontrivial=True)
            res.violation("type:" + key, "%s | while running %s" % (msg, label))
        riders.after(None)
    # evaluations = terms checked; distinct_nontrivial = distinct (class, child types) signatures are approximated by distinct classes x engines
    res.case(key="%s:%s" % (shard["engine"], "monitored"), nontrivial=True, sample={"engine": shard["engine"], "terms_checked": res.counters.get("M06:terms-checked", 0)})


def int_programs(rng):
    """bounded-integer arithmetic between Numbers, Tensors and lazy Variables of different sizes, both operand orders"""
    sizes = (2, 3, 4)
    for op in ("add", "mul", "max", "min", "pow", "mod", "floordiv", "eq", "lt"):
        for a, b in itertools.product(sizes, repeat=2):
            if op in ("mod", "floordiv") and b < 2:
                continue
            forms_a = [("num", int(rng.integers(0, a)), a), ("ten", rng.integers(0, a, size=(3,)).astype(np.int64), ("i",), a), ("ten", rng.integers(0, a, size=()).astype(np.int64), (), a), ("var", "u", (a, ()))]
            lo = 1 if op in ("mod", "floordiv") else 0
            forms_b = [("num", int(rng.integers(lo, b)), b), ("ten", rng.integers(lo, b, size=(3,)).astype(np.int64), ("i",), b), ("ten", rng.integers(lo, b, size=(2,)).astype(np.int64), ("j",), b), ("var", "v", (b, ()))]
            for fa in forms_a:
                for fb in forms_b:
                    yield ("bin", op, (), fa, fb)


def run_int_arith(res, rng, riders):
    from funsor.interpretations import reflect
    from funsor.tensor import Tensor
    from funsor.terms import Number

    from ..build import build
    from ..refsem import all_envs, ref_eval
    from ..common import close

    for P in int_programs(rng):
        riders.before(P)
        try:
            with np.errstate(all="ignore"):
                with reflect:
                    L = build(P)
                E = build(P)
        except Exception as e:
            res.count("int-arith:declined:%s" % type(e).__name__)
            continue
        msg = None
        if dom_of(E.output) != dom_of(L.output):
            unit = {"add": 0, "mul": 1}.get(P[1])
            is_unit_removal = unit is not None and any(o[0] == "num" and o[1] == unit for o in (P[3], P[4])) and not isinstance(E, (Tensor, Number))
            msg = ("eager-output:unit-removal" if is_unit_removal else "eager-output", "eager result declares %s, the lazy term declares %s" % (E.output, L.output))
        elif isinstance(E, (Tensor, Number)):
            data = np.asarray(E.data)
            dt = dom_of(E.output)[0]
            if dt != "real" and data.size and (int(data.min()) < 0 or int(data.max()) >= dt):
                if P[1] not in ("floordiv",):  # the static bound of floordiv is a recorded finding
                    msg = ("bint-range-eager:%s" % P[1], "eager result declares Bint[%s] but holds values in [%d, %d]" % (dt, int(data.min()), int(data.max())))
            if msg is None:
                try:
                    inputs = {k: dom_of(d) for k, d in E.inputs.items()}
                    for env in all_envs(inputs, rng, limit=24):
                        with np.errstate(all="ignore"):
                            want = ref_eval(P, env)
                        got = data[tuple(int(env[k]) for k in E.inputs)] if isinstance(E, Tensor) else data
                        if not close(got, want):
                            msg = ("int-arith-value:%s" % P[1], "at %s got %s expected %s" % (env, got, want))
                            break
                except Exception as e:
                    res.count("int-arith:undecided:%s" % type(e).__name__)
        res.case(key=digest(P), nontrivial=True)
        if msg:
            res.violation("type:" + msg[0], "%s | %s" % (msg[1], show(P)[:300]), case={"P": P})
        else:
            res.count("int-arith:ok")
        riders.after(None)


def run_lve(shard, res, rng):
    from funsor.interpretations import reflect

    from ..build import build
    from ..gen.e1 import Gen
    from ..gen.e4 import SEMIRINGS, SemiringGen

    riders = Riders(res)
    shapes = [(), (), (2,), (3,), (2, 3)]
    run_int_arith(res, rng, riders)
    for i in range(shard["n"]):
        if i % 4 == 3:
            P = SemiringGen(rng, SEMIRINGS[int(rng.integers(len(SEMIRINGS)))]).program(3)
        else:
            P = Gen(rng, real_vars=0.15, mode=["free", "arith", "tropical"][i % 3]).real(2 + (i % 2), shapes[int(rng.integers(len(shapes)))])
        try:
            p_in, p_out = typecheck(P)
        except (IllTyped, Unsupported):
            continue
        riders.before(P)
        try:
            with np.errstate(all="ignore"):
                with reflect:
                    L = build(P)
        except Exception as e:
            res.count("lazy-build-declined:%s" % type(e).__name__)
            continue
        l_in = {k: dom_of(d) for k, d in L.inputs.items()}
        msg = None
        if l_in != dict(p_in):
            msg = ("lazy-inputs", "lazily built term declares inputs %s, typing rules give %s" % (l_in, dict(p_in)))
        elif dom_of(L.output) != p_out:
            msg = ("lazy-output", "lazily built term declares output %s, typing rules give %s" % (dom_of(L.output), p_out))
        else:
            try:
                with np.errstate(all="ignore"):
                    E = build(P)
                e_in = {k: dom_of(d) for k, d in E.inputs.items()}
                if dom_of(E.output) != dom_of(L.output):
                    msg = ("eager-output", "eager result has output %s, the lazy term declares %s" % (E.output, L.output))
                elif any(k not in l_in or l_in[k] != d for k, d in e_in.items()):
                    msg = ("eager-inputs", "eager result has inputs %s, not a subset of the lazy term's %s" % (e_in, l_in))
            except Exception as e:
                res.count("eager-build-declined:%s" % type(e).__name__)
        res.case(key=digest(P), nontrivial=True, sample={"program": show(P)[:240], "declared": "%s -> %s" % (list(l_in), p_out)} if i < 3 else None)
        if msg:
            res.violation("type:" + msg[0], "%s | %s" % (msg[1], show(P)[:400]), case={"P": P})
        else:
            res.count("lazy-vs-eager:ok")
        riders.after(None)


# ---------------------------------------------------------------------------
# (d) catalogue


def dom_arrays(dom, rng, exhaustive_limit=256):
    """arrays of a domain: every value for small bounded-int domains, random otherwise"""
    dtype, shape = dom
    n = int(np.prod(shape, dtype=int))
    if dtype == "real":
        return [np.round(rng.uniform(-2, 2, size=shape), 2) for _ in range(2)], False
    if dtype ** n <= exhaustive_limit:
        return [np.array(v, dtype=np.int64).reshape(shape) for v in itertools.product(range(dtype), repeat=n)], True
    return [rng.integers(0, dtype, size=shape) for _ in range(6)] + [np.zeros(shape, dtype=np.int64), np.full(shape, dtype - 1, dtype=np.int64)], False


def run_catalogue(shard, res, rng):
    from funsor import ops
    from funsor.domains import find_domain

    from ..build import to_domain

    shapes = [(), (1,), (2,), (3,), (2, 3), (3, 2), (2, 1), (2, 2, 3), (4,)]
    cases = []
    # pointwise unary
    # ops whose carrier is the reals are applied to real domains only; neg/abs/exp/log have rules for bounded ints; invert is boolean
    for name in ("neg", "abs", "exp", "log", "sqrt", "sigmoid", "tanh", "log1p", "reciprocal", "invert"):
        for shape in shapes:
            if name != "invert":
                cases.append(("un", name, (), [("real", shape)]))
            if name in ("neg", "abs", "exp", "log"):
                for n in (2, 3):
                    cases.append(("un", name, (), [(n, shape)]))
            if name == "invert":
                cases.append(("un", name, (), [(2, shape)]))
    # reductions with every axis / keepdims
    for name in ("sum", "prod", "amax", "amin", "logsumexp", "mean", "std", "var", "all", "any", "argmax", "argmin"):
        for shape in shapes:
            nd = len(shape)
            axes = [None] + list(range(-nd, nd))
            if nd >= 2 and name not in ("argmax", "argmin"):
                axes += [t for r in (2, 3) for t in itertools.permutations(range(nd), r) if r <= nd] + [(-1, 0)]
            for axis in axes:
                for keepdims in (False, True):
                    dt = [("real", shape)] if name not in ("all", "any") else [(2, shape), ("real", shape)]
                    for d in dt:
                        cases.append(("red", name, (("axis", axis), ("keepdims", keepdims)), [d]))
    # binary: arithmetic / comparison / logical on real and bounded ints with broadcasting
    pairs = [((), ()), ((2,), ()), ((), (3,)), ((2, 3), (3,)), ((2, 1), (1, 3)), ((2, 3), (2, 3)), ((3,), (2, 3))]
    for name in ("add", "sub", "mul", "truediv", "floordiv", "mod", "pow", "max", "min", "logaddexp", "eq", "ne", "lt", "le", "gt", "ge", "and_", "or_", "xor"):
        for sa, sb in pairs:
            if name not in ("and_", "or_", "xor"):
                cases.append(("bin", name, (), [("real", sa), ("real", sb)]))
            if name in ("truediv", "logaddexp"):
                continue  # real-valued ops
            for a, b in ((2, 2), (2, 3), (3, 2), (4, 1), (1, 4), (3, 3)):
                if name in ("and_", "or_", "xor") and (a, b) != (2, 2):
                    continue  # boolean carrier
                if name in ("mod", "floordiv") and b < 2:
                    continue  # a divisor domain containing only 0
                cases.append(("bin", name, (), [(a, sa), (b, sb)]))
    # getitem with every offset, bounded-int and real lhs
    for shape in [(2,), (3, 2), (2, 3, 2)]:
        for off in range(len(shape)):
            cases.append(("bin", "getitem", (("offset", off),), [("real", shape), (shape[off], ())]))
            cases.append(("bin", "getitem", (("offset", off),), [(3, shape), (shape[off], ())]))
    # matmul
    for sa, sb in [((3,), (3,)), ((2, 3), (3,)), ((3,), (3, 2)), ((2, 3), (3, 2)), ((2, 2, 3), (3, 2)), ((2, 3), (2, 3, 2))]:
        cases.append(("bin", "matmul", (), [("real", sa), ("real", sb)]))
    # getslice
    for shape in [(3,), (2, 3), (2, 3, 2), (4,)]:
        idxs = [(0,), (-1,), (slice(1, None),), (slice(None, 2),), (slice(None, None, 2),), (slice(1, 3, 2),), (Ellipsis, 0), (Ellipsis, slice(0, 1)), (None,), (Ellipsis, None), (slice(None), ), (Ellipsis,)]
        # empty and boundary slices: stop 0, start == stop, start beyond the end, negative bounds, negative steps
        idxs += [(slice(None, 0),), (slice(2, 0),), (slice(0, 0, 2),), (slice(1, 1),), (slice(5, None),), (slice(-2, None),), (slice(None, -1),), (slice(None, None, -1),),
                 (slice(-1, 0, -1),), (Ellipsis, slice(1, 0)), (None, slice(None, 0))]
        if len(shape) >= 2:
            idxs += [(slice(None), slice(None, 0)), (slice(0, 0), 1), (slice(None, 0), slice(None, 0)),
                     (0, 1), (slice(None), 0), (1, Ellipsis), (slice(0, 1), slice(1, 3)), (Ellipsis, 1, slice(None)), (None, 0), (0, None, slice(1, None))]
        for idx in idxs:
            cases.append(("un", "getslice", (("index", idx),), [("real", shape)]))
            cases.append(("un", "getslice", (("index", idx),), [(3, shape)]))
    # reshape
    for src, tgt in [((2, 3), (3, 2)), ((2, 3), (6,)), ((6,), (2, 3)), ((2,), (2, 1)), ((), (1,)), ((1,), ()), ((2, 3, 2), (4, 3)), ((2, 2), (4,))]:
        cases.append(("un", "reshape", (("shape", tgt),), [("real", src)]))
        cases.append(("un", "reshape", (("shape", tgt),), [(3, src)]))
    # astype
    for dt in ("float32", "float64", "bool", "int64", "int32"):
        for shape in [(), (3,), (2, 3)]:
            cases.append(("un", "astype", (("dtype", dt),), [("real", shape)]))
            cases.append(("un", "astype", (("dtype", dt),), [(3, shape)]))
            cases.append(("un", "astype", (("dtype", dt),), [(2, shape)]))
    # finitary stack / cat / einsum
    for shape in [(), (2,), (2, 3)]:
        for dim in range(-len(shape) - 1, len(shape) + 1):
            for n in (1, 2, 3):
                cases.append(("fin", "stack", (("dim", dim),), [("real", shape)] * n))
    for s1, s2, axes in [((2,), (3,), (0, -1)), ((2, 3), (1, 3), (0, -2)), ((2, 3), (2, 1), (1, -1)), ((2, 1, 3), (2, 2, 3), (1, -2))]:
        for axis in axes:
            cases.append(("fin", "cat", (("axis", axis),), [("real", s1), ("real", s2)]))
    for eq, shs in [("ab,bc->ac", [(2, 3), (3, 2)]), ("ab->ba", [(2, 3)]), ("a,a->", [(3,), (3,)]), ("ab,b->a", [(2, 3), (3,)]), ("a,b->ab", [(2,), (3,)]), ("abc,c->ab", [(2, 3, 2), (2,)])]:
        cases.append(("fin", "einsum", (("equation", eq),), [("real", s) for s in shs]))
    for ci, (kind, name, params, doms) in enumerate(cases):
        if ci % shard["of"] != shard["index"]:
            continue
        run_catalogue_case(kind, name, params, doms, res, rng)


_ALIVE_OPS = []


def run_catalogue_case(kind, name, params, doms, res, rng):
    from funsor import ops
    from funsor.domains import find_domain

    from ..build import to_domain

    p = dict(params)
    try:
        if name in ("sum", "prod", "amax", "amin", "logsumexp", "mean", "all", "any", "argmax", "argmin"):
            op = getattr(ops, name.capitalize() + "Op")(p["axis"], p["keepdims"]) if False else type(getattr(ops, name))(p["axis"], p["keepdims"])
        elif name in ("std", "var"):
            op = type(getattr(ops, name))(p["axis"], 0, p["keepdims"])
        elif name == "astype":
            op = ops.AstypeOp(p["dtype"])
        elif name == "getitem":
            op = ops.GetitemOp(p["offset"])
        elif name == "getslice":
            op = ops.GetsliceOp(p["index"])
        elif name == "reshape":
            op = ops.ReshapeOp(tuple(p["shape"]))
        elif name == "stack":
            op = type(ops.stack)(p["dim"])
        elif name == "cat":
            op = type(ops.cat)(p["axis"])
        elif name == "einsum":
            op = type(ops.einsum)(p["equation"])
        else:
            op = getattr(ops, name)
    except Exception as e:
        res.count("catalogue:op-unavailable:%s" % type(e).__name__)
        return
    fdoms = [to_domain(d) for d in doms]
    case = (kind, name, params, tuple(doms))
    key = digest(case)
    # parametrised ops stay alive for the whole catalogue (an op built with parameters p must carry p, also while instances with
    # other parameters exist: typing and evaluation both read the parameters from the instance)
    _ALIVE_OPS.append(op)
    if p and hasattr(op, "defaults"):
        res.count("catalogue:op-parameter-checks")
        for k, v in p.items():
            if k in op.defaults and k in ("axis", "keepdims", "offset", "dim", "equation"):  # `index` is normalised by GetsliceOp
                have = op.defaults[k]
                same_v = (tuple(have) == tuple(v)) if isinstance(v, (tuple, list)) and isinstance(have, (tuple, list)) else (have == v and type(have) is type(v) or have is v)
                if not same_v:
                    res.violation("type:op-parameters", "%s built with %s=%r carries %s=%r" % (type(op).__name__, k, v, k, have), case=case)
    try:
        declared = find_domain(op, tuple(fdoms)) if kind == "fin" else find_domain(op, *fdoms)
        declared = dom_of(declared)
    except Exception as e:
        res.count("catalogue:find_domain-declined:%s" % type(e).__name__)
        res.case(key=key, nontrivial=False)
        return
    # actual values
    arrs, exhaustive = zip(*[dom_arrays(d, rng) for d in doms])
    if name == "invert":
        arrs = tuple([a.astype(bool) for a in al] for al in arrs)  # boolean carrier
    combos = list(itertools.product(*arrs))
    if len(combos) > 600:
        idx = rng.choice(len(combos), size=600, replace=False)
        combos = [combos[i] for i in idx]
        exhaustive = (False,)
    lo, hi = None, None
    shape_seen = None
    for args in combos:
        try:
            with np.errstate(all="ignore"):
                out = op(tuple(args)) if kind == "fin" else op(*args)
        except ZeroDivisionError:
            continue
        except Exception as e:
            res.count("catalogue:op-declined:%s:%s" % (name, type(e).__name__))
            continue
        out = np.asarray(out)
        shape_seen = tuple(out.shape)
        if shape_seen != tuple(declared[1]):
            res.violation("type:find_domain-shape:%s" % name, "find_domain(%s%s, %s) declares shape %s but the op returns shape %s" % (name, dict(params) or "", [str(f) for f in fdoms], declared[1], shape_seen), case=case)
            res.case(key=key, nontrivial=True)
            return
        if declared[0] != "real":
            if out.dtype.kind == "f":
                if np.isnan(out).any() or np.isinf(out).any():
                    continue
                if not np.all(out == np.round(out)):
                    res.violation("type:find_domain-dtype:%s" % name, "find_domain(%s, %s) declares Bint[%s] but the op returns non-integers %s" % (name, [str(f) for f in fdoms], declared[0], short(out.tolist())), case=case)
                    res.case(key=key, nontrivial=True)
                    return
            v = out.astype(np.int64) if out.dtype.kind != "b" else out.astype(np.int64)
            if v.size:
                lo = int(v.min()) if lo is None else min(lo, int(v.min()))
                hi = int(v.max()) if hi is None else max(hi, int(v.max()))
    res.case(key=key, nontrivial=True, sample={"op": name, "params": short(dict(params)), "domains": [str(f) for f in fdoms], "declared": str(declared), "exhaustive_values": all(exhaustive)})
    if declared[0] != "real" and lo is not None:
        if lo < 0 or hi >= declared[0]:
            res.violation("type:bint-range:%s" % name, "find_domain(%s, %s) declares Bint[%s] but the op produces values in [%d, %d] on operands inside their domains" % (
                name, [str(f) for f in fdoms], declared[0], lo, hi), case=case)
            return
        if all(exhaustive) and hi + 1 < declared[0]:
            res.count("catalogue:bint-over-approximation:%s" % name)
    res.count("catalogue:ok")
