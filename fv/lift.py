"""funsor term -> IR, reading structure only (class, constructor fields, .inputs of leaves).

lift_call(cls, args) lifts an *unbuilt* (class, args) pair so monitors never have to construct the lazy term.
"""
from collections import OrderedDict

import numpy as np

from .ir import Unsupported


def dom_of(d):
    """funsor domain -> IR domain"""
    dt = getattr(d, "dtype", None)
    if dt == "real":
        return ("real", tuple(int(s) for s in d.shape))
    if isinstance(dt, int):
        return (int(dt), tuple(int(s) for s in d.shape))
    raise Unsupported("domain %r" % (d,))


def _params(op):
    out = []
    for k, v in getattr(op, "defaults", {}).items():
        if isinstance(v, list):
            v = tuple(v)
        out.append((k, v))
    return tuple(out)


def _opname(op):
    n = getattr(op, "name", None) or getattr(op, "__name__", None)
    if n is None:
        raise Unsupported("op %r" % (op,))
    return n


def _vars(vs):
    return tuple(sorted((v.name, dom_of(v.output)) for v in vs))


def lift(x):
    import funsor.terms as T
    from funsor.cnf import Contraction
    from funsor.constant import Constant
    from funsor.delta import Delta
    from funsor.gaussian import Gaussian
    from funsor.integrate import Integrate
    from funsor.tensor import Tensor

    if isinstance(x, T.Variable):
        return ("var", x.name, dom_of(x.output))
    if isinstance(x, T.Number):
        return ("num", x.data, x.dtype)
    if isinstance(x, Tensor):
        return ("ten", np.asarray(x.data), tuple(x.inputs), x.dtype)
    if isinstance(x, T.Slice):
        return ("slice", x.name, x.slice.start, x.slice.stop, x.slice.step, x.dtype)
    if isinstance(x, T.Unary):
        return ("un", _opname(x.op), _params(x.op), lift(x.arg))
    if isinstance(x, T.Binary):
        return ("bin", _opname(x.op), _params(x.op), lift(x.lhs), lift(x.rhs))
    if isinstance(x, T.Reduce):
        return ("red", _opname(x.op), lift(x.arg), _vars(x.reduced_vars))
    if isinstance(x, T.Subs):
        return ("sub", lift(x.arg), tuple((k, lift(v)) for k, v in x.subs.items()))
    if isinstance(x, T.Stack):
        return ("stack", x.name, tuple(lift(p) for p in x.parts))
    if isinstance(x, T.Cat):
        return ("cat", x.name, tuple(lift(p) for p in x.parts), x.part_name)
    if isinstance(x, T.Lambda):
        return ("lam", x.var.name, x.var.output.size, lift(x.expr))
    if isinstance(x, T.Independent):
        return ("indep", lift(x.fn), x.reals_var, x.bint_var, x.diag_var)
    if isinstance(x, T.Align):
        return ("align", lift(x.arg), tuple(x._ast_values[1]))
    if isinstance(x, T.Finitary):
        return ("fin", _opname(x.op), _params(x.op), tuple(lift(a) for a in x.args))
    if isinstance(x, T.Tuple):
        return ("tuple", tuple(lift(a) for a in x.args))
    if isinstance(x, Contraction):
        return ("contr", _opname(x.red_op), _opname(x.bin_op), _vars(x.reduced_vars), tuple(lift(t) for t in x.terms))
    if isinstance(x, Delta):
        return ("delta", tuple((name, lift(point), lift(ld)) for name, (point, ld) in x.terms))
    if isinstance(x, Gaussian):
        return ("gauss", np.asarray(x.white_vec), np.asarray(x.prec_sqrt), tuple((k, dom_of(d)) for k, d in x.inputs.items()))
    if isinstance(x, Integrate):
        return ("integ", lift(x.log_measure), lift(x.integrand), _vars(x.reduced_vars))
    if isinstance(x, Constant):
        return ("const", tuple((k, dom_of(d)) for k, d in x.const_inputs), lift(x.arg))
    if isinstance(x, T.Approximate):
        return ("approx", _opname(x.op), lift(x.model), lift(x.guide), _vars(x.approx_vars))
    raise Unsupported("lift " + type(x).__name__)


def lift_call(cls, args):
    """IR of the term `cls(*args)` would denote, without constructing it."""
    import funsor.terms as T
    from funsor.cnf import Contraction
    from funsor.constant import Constant
    from funsor.delta import Delta
    from funsor.gaussian import Gaussian
    from funsor.integrate import Integrate
    from funsor.tensor import Tensor
    from funsor.typing import get_origin

    c = get_origin(cls)
    if c is T.Unary:
        op, arg = args
        return ("un", _opname(op), _params(op), lift(arg))
    if c is T.Binary:
        op, lhs, rhs = args
        return ("bin", _opname(op), _params(op), lift(lhs), lift(rhs))
    if c is T.Reduce:
        op, arg, vs = args
        return ("red", _opname(op), lift(arg), _vars(vs))
    if c is T.Subs:
        arg, subs = args
        return ("sub", lift(arg), tuple((k, lift(v)) for k, v in subs))
    if c is T.Stack:
        return ("stack", args[0], tuple(lift(p) for p in args[1]))
    if c is T.Cat:
        return ("cat", args[0], tuple(lift(p) for p in args[1]), args[2])
    if c is T.Lambda:
        return ("lam", args[0].name, args[0].output.size, lift(args[1]))
    if c is T.Independent:
        return ("indep", lift(args[0]), args[1], args[2], args[3])
    if c is T.Align:
        return ("align", lift(args[0]), tuple(args[1]))
    if c is T.Finitary:
        op, a = args
        return ("fin", _opname(op), _params(op), tuple(lift(t) for t in a))
    if c is T.Tuple:
        return ("tuple", tuple(lift(a) for a in args[0]))
    if c is Contraction:
        red, binop, vs, terms = args[0], args[1], args[2], args[3:]
        if len(terms) == 1 and isinstance(terms[0], tuple):
            terms = terms[0]
        return ("contr", _opname(red), _opname(binop), _vars(vs), tuple(lift(t) for t in terms))
    if c is Integrate:
        return ("integ", lift(args[0]), lift(args[1]), _vars(args[2]))
    if c is Delta:
        return ("delta", tuple((name, lift(point), lift(ld)) for name, (point, ld) in args[0]))
    if c is Constant:
        ci = args[0]
        ci = tuple(ci.items()) if isinstance(ci, dict) else ci
        return ("const", tuple((k, dom_of(d)) for k, d in ci), lift(args[1]))
    if c is T.Approximate:
        return ("approx", _opname(args[0]), lift(args[1]), lift(args[2]), _vars(args[3]))
    if c is Tensor:
        data, inputs, dtype = args
        inputs = tuple(inputs.items()) if isinstance(inputs, dict) else tuple(inputs)
        return ("ten", np.asarray(data), tuple(k for k, d in inputs), dtype)
    if c is T.Variable:
        return ("var", args[0], dom_of(args[1]))
    if c is T.Number:
        return ("num", args[0], args[1] if len(args) > 1 and args[1] is not None else "real")
    if c is T.Slice:
        name, start, stop, step, dtype = args
        return ("slice", name, start, stop, step, dtype)
    if c is Gaussian:
        w, P, inputs = args
        inputs = tuple(inputs.items()) if isinstance(inputs, dict) else tuple(inputs)
        return ("gauss", np.asarray(w), np.asarray(P), tuple((k, dom_of(d)) for k, d in inputs))
    raise Unsupported("lift_call " + getattr(c, "__name__", str(c)))
