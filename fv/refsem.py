"""Reference semantics: pointwise, textbook evaluation of IR programs. Never calls funsor.

ref_eval(ir, env) -> numpy scalar / ndarray; env binds every free input (python int for bounded ints of shape (),
ndarray otherwise).  Reductions extend env lexically, so capture is impossible by construction.
"""
import itertools
import math

import numpy as np
import scipy.special

from .ir import IllConditioned, IllTyped, Unsupported, typecheck

F = np.float64


def _sigmoid(x):
    return 1.0 / (1.0 + np.exp(-x))


UN = {
    "neg": np.negative, "abs": np.abs, "exp": np.exp, "sqrt": np.sqrt, "sigmoid": _sigmoid, "tanh": np.tanh,
    "atanh": np.arctanh, "log1p": np.log1p, "pos": lambda x: +x, "reciprocal": lambda x: 1.0 / x,
    "lgamma": scipy.special.gammaln, "softplus": lambda x: np.logaddexp(0.0, x),
}

BIN = {
    "add": np.add, "sub": np.subtract, "mul": np.multiply, "truediv": np.true_divide, "floordiv": np.floor_divide,
    "mod": np.mod, "pow": np.power, "max": np.maximum, "min": np.minimum, "logaddexp": np.logaddexp,
    "sample": np.logaddexp, "eq": np.equal, "ne": np.not_equal, "lt": np.less, "le": np.less_equal, "gt": np.greater,
    "ge": np.greater_equal, "matmul": np.matmul, "safesub": np.subtract, "safediv": np.true_divide,
    "and_": np.logical_and, "or_": np.logical_or, "xor": np.logical_xor,
}

UNIT = {"add": 0.0, "mul": 1.0, "max": -np.inf, "min": np.inf, "logaddexp": -np.inf, "sample": -np.inf,
        "and_": True, "or_": False, "xor": False}


def _lse(x, axis=None, keepdims=False):
    return scipy.special.logsumexp(np.asarray(x, dtype=F), axis=axis, keepdims=keepdims)


def apply_unary(op, params, x):
    p = dict(params)
    x = np.asarray(x)
    with np.errstate(all="ignore"):
        if op == "log":
            if x.dtype == bool:
                return np.where(x, 0.0, -np.inf)
            return np.log(x.astype(F))
        if op == "invert":
            return np.logical_not(x) if x.dtype == bool else np.invert(x)
        if op in UN:
            return UN[op](x.astype(F) if op not in ("neg", "abs", "pos") else x)
        axis, keepdims = p.get("axis"), p.get("keepdims", False)
        if isinstance(axis, list):
            axis = tuple(axis)
        if op == "sum":
            return np.sum(x, axis=axis, keepdims=keepdims)
        if op == "prod":
            return np.prod(x, axis=axis, keepdims=keepdims)
        if op == "amax":
            return np.amax(x, axis=axis, keepdims=keepdims)
        if op == "amin":
            return np.amin(x, axis=axis, keepdims=keepdims)
        if op == "mean":
            return np.mean(x, axis=axis, keepdims=keepdims)
        if op == "all":
            return np.all(x, axis=axis, keepdims=keepdims)
        if op == "any":
            return np.any(x, axis=axis, keepdims=keepdims)
        if op == "logsumexp":
            return _lse(x, axis, keepdims)
        if op in ("std", "var"):
            f = np.std if op == "std" else np.var
            return f(x, axis=axis, ddof=p.get("ddof", 0), keepdims=keepdims)
        if op == "reshape":
            return x.reshape(tuple(p["shape"]))
        if op == "getslice":
            return x[p["index"]]
        if op == "astype":
            t = p["dtype"]
            return x.astype({"float": F, "double": F, "float32": np.float32, "float64": F, "bool": bool}.get(t, np.int64))
    raise Unsupported("unary " + op)


_EXACT_UN = {"neg", "abs", "pos", "sum", "amax", "amin", "reshape", "getslice", "astype", "all", "any", "argmax", "argmin", "invert"}
_EXACT_BIN = {"add", "sub", "mul", "max", "min", "getitem", "eq", "ne", "lt", "le", "gt", "ge", "and_", "or_", "xor"}
_EXACT_RED = {"add", "mul", "max", "min", "and_", "or_"}
_exact_cache = {}


def is_exact_ir(ir):
    """True iff the expression is computed without rounding on dyadic grid data (sums, products, maxima, indexing, comparisons only): only
    then is an exact tie between two real values meaningful; a value that went through exp / division / log ... may hit a grid value
    by rounding luck, and a comparison at such a tie is ill-conditioned"""
    if not isinstance(ir, tuple) or not ir or not isinstance(ir[0], str):
        if isinstance(ir, tuple):
            return all(is_exact_ir(c) for c in ir)
        return True
    key = id(ir)
    if key in _exact_cache and _exact_cache[key][0] is ir:
        return _exact_cache[key][1]
    k = ir[0]
    if k == "un":
        ok = ir[1] in _EXACT_UN and is_exact_ir(ir[3])
    elif k == "bin":
        ok = ir[1] in _EXACT_BIN and is_exact_ir(ir[3]) and is_exact_ir(ir[4])
    elif k == "red":
        ok = ir[1] in _EXACT_RED and is_exact_ir(ir[2])
    elif k in ("ten", "num", "var", "slice"):
        ok = True
    elif k in ("sub", "stack", "cat", "lam", "align", "indep", "tuple"):
        ok = all(is_exact_ir(c) for c in ir[1:])
    elif k == "contr":
        ok = ir[1] in _EXACT_RED | {"null"} and ir[2] in _EXACT_BIN | {"null"} and all(is_exact_ir(t) for t in ir[4])
    else:
        ok = False
    if len(_exact_cache) > 50000:
        _exact_cache.clear()
    _exact_cache[key] = (ir, ok)
    return ok


def apply_binary(op, params, a, b, exact=True):
    a, b = np.asarray(a), np.asarray(b)
    with np.errstate(all="ignore"):
        if op == "getitem":
            off = dict(params).get("offset", 0)
            if b.shape != ():
                raise Unsupported("getitem array index")
            return a[(slice(None),) * off + (int(b),)]
        if op in ("and_", "or_", "xor") and not (a.dtype == bool and b.dtype == bool):
            f = {"and_": np.bitwise_and, "or_": np.bitwise_or, "xor": np.bitwise_xor}[op]
            return f(a.astype(np.int64), b.astype(np.int64))
        if op in ("eq", "ne", "lt", "le", "gt", "ge"):
            if a.dtype.kind == "f" or b.dtype.kind == "f":
                d = np.abs(a.astype(F) - b.astype(F))
                af = a.astype(F)
                nice = np.all(af * 64 == np.round(af * 64)) and np.all(b.astype(F) * 64 == np.round(b.astype(F) * 64))
                tie = d <= 1e-9 * (1 + np.abs(af))
                if np.any(tie & (d > 0)) or (np.any(tie) and not (nice and exact)):
                    raise IllConditioned("comparison of (almost) equal reals that are not exactly representable")
            return BIN[op](a, b).astype(np.int64)  # a bounded integer in {0, 1}, not a numpy boolean (True + True must be 2)
        if op in BIN:
            return BIN[op](a, b)
    raise Unsupported("binary " + op)


def domain_points(dom, limit=4096):
    dtype, shape = dom
    if dtype == "real":
        raise Unsupported("cannot enumerate a real domain")
    if shape:
        n = int(np.prod(shape))
        if dtype ** n > limit:
            raise Unsupported("domain too large")
        return [np.array(v, dtype=np.int64).reshape(shape) for v in itertools.product(range(dtype), repeat=n)]
    return list(range(dtype))


def fold(op, values, like=None):
    it = iter(values)
    try:
        acc = next(it)
    except StopIteration:
        return UNIT[op]
    f = BIN[op]
    with np.errstate(all="ignore"):
        for v in it:
            acc = f(acc, v)
    return acc


def _each(vs, env, limit=200000):
    """iterate over environments extending env with every assignment of the (name, dom) pairs"""
    names = [n for n, d in vs]
    spaces = [domain_points(d) for n, d in vs]
    total = 1
    for s in spaces:
        total *= len(s)
    if total > limit:
        raise Unsupported("reduction space too large")
    for pt in itertools.product(*spaces):
        e = dict(env)
        e.update(zip(names, pt))
        yield e


_TC = {}


def inputs_of(ir):
    """memoised free inputs of an IR node (by identity; the node is kept alive by the cache entry)"""
    hit = _TC.get(id(ir))
    if hit is not None and hit[0] is ir:
        return hit[1]
    if len(_TC) > 20000:
        _TC.clear()
    inp = typecheck(ir)[0]
    _TC[id(ir)] = (ir, inp)
    return inp


def ref_eval(ir, env):
    k = ir[0]
    if k == "var":
        return env[ir[1]]
    if k == "num":
        return ir[1]
    if k == "ten":
        v = np.asarray(ir[1])[tuple(int(env[n]) for n in ir[2])]
        return v.astype(np.int64) if v.dtype == bool else v  # a bounded integer in {0, 1}; numpy booleans add as logical-or
    if k == "slice":
        return ir[2] + ir[4] * int(env[ir[1]])
    if k in ("align",):
        return ref_eval(ir[1], env)
    if k == "const":
        return ref_eval(ir[2], env)
    if k == "approx":
        return ref_eval(ir[2], env)
    if k == "un":
        return apply_unary(ir[1], ir[2], ref_eval(ir[3], env))
    if k == "bin":
        exact = True
        if ir[1] in ("eq", "ne", "lt", "le", "gt", "ge"):
            exact = is_exact_ir(ir[3]) and is_exact_ir(ir[4])
        return apply_binary(ir[1], ir[2], ref_eval(ir[3], env), ref_eval(ir[4], env), exact=exact)
    if k == "red":
        _, op, e, vs = ir
        vs = sorted(vs)
        if any(d[0] == "real" for n, d in vs):
            raise Unsupported("reduction over a real variable")
        return fold(op, (ref_eval(e, e2) for e2 in _each(vs, env)))
    if k == "sub":
        _, e, subs = ir
        e2 = dict(env)
        free = inputs_of(e)
        for name, v in subs:
            if name in free:  # names that are not inputs of e are ignored
                e2[name] = ref_eval(v, env)
        return ref_eval(e, e2)
    if k == "stack":
        return ref_eval(ir[2][int(env[ir[1]])], env)
    if k == "cat":
        _, name, parts, part_name = ir
        n = int(env[name])
        for p in parts:
            size = inputs_of(p)[part_name][0]
            if n < size:
                e2 = dict(env)
                e2[part_name] = n
                return ref_eval(p, e2)
            n -= size
        raise IllTyped("cat index out of range")
    if k == "lam":
        _, name, size, e = ir
        rows = []
        for i in range(size):
            e2 = dict(env)
            e2[name] = i
            rows.append(np.asarray(ref_eval(e, e2)))
        return np.stack(rows)
    if k == "indep":
        _, e, rv, bv, dv = ir
        x = np.asarray(env[rv])
        tot = 0.0
        for i in range(x.shape[0]):
            e2 = dict(env)
            e2[bv] = i
            e2[dv] = x[i]
            tot = tot + ref_eval(e, e2)
        return tot
    if k == "fin":
        _, op, params, es = ir
        p = dict(params)
        args = [np.asarray(ref_eval(e, env)) for e in es]
        if op == "einsum":
            return np.einsum(p["equation"], *[a.astype(F) for a in args])
        if op == "stack":
            shape = np.broadcast_shapes(*(a.shape for a in args))
            dim = p["dim"]
            pos = dim if dim >= 0 else dim + len(shape) + 1
            return np.stack([np.broadcast_to(a, shape) for a in args], axis=pos)
        if op == "cat":
            return np.concatenate(args, axis=p["axis"])
        raise Unsupported("finitary " + op)
    if k == "tuple":
        return tuple(ref_eval(e, env) for e in ir[1])
    if k == "contr":
        _, red, binop, vs, terms = ir
        vs = sorted(vs)
        if any(d[0] == "real" for n, d in vs):
            raise Unsupported("contraction over a real variable")

        def body(e2):
            ts = [ref_eval(t, e2) for t in terms]
            return ts[0] if binop == "null" else fold(binop, ts)

        if red == "null":
            if vs:
                raise IllTyped("null reduction with variables")
            return body(env)
        return fold(red, (body(e2) for e2 in _each(vs, env)))
    if k == "delta":
        tot = 0.0
        for name, point, ld in ir[1]:
            p = ref_eval(point, env)
            tot = tot + ref_eval(ld, env)
            if not np.all(np.asarray(env[name]) == np.asarray(p)):
                return -np.inf
        return tot
    if k == "gauss":
        _, w, P, inputs = ir
        idx = tuple(int(env[n]) for n, d in inputs if d[0] != "real")
        reals = [np.asarray(env[n], dtype=F).reshape(-1) for n, d in inputs if d[0] == "real"]
        x = np.concatenate(reals) if reals else np.zeros(0)
        r = x @ np.asarray(P, dtype=F)[idx] - np.asarray(w, dtype=F)[idx]
        return -0.5 * float(r @ r)
    if k == "integ":
        _, m, f, vs = ir
        vs = sorted(vs)
        if any(d[0] == "real" for n, d in vs):
            raise Unsupported("integral over a real variable")
        tot = 0.0
        with np.errstate(all="ignore"):
            for e2 in _each(vs, env):
                w = np.exp(ref_eval(m, e2))
                v = ref_eval(f, e2)
                tot = tot + np.where(w == 0, 0.0, w * v)
        return tot
    raise Unsupported("ref_eval " + str(k))


def all_envs(inputs, rng=None, nreal=2, limit=256):
    """every point of the integer inputs x `nreal` sample points of each real input (capped at `limit` points, evenly thinned)"""
    names = list(inputs)
    spaces = []
    for n in names:
        d = inputs[n]
        if d[0] == "real":
            r = rng if rng is not None else np.random.default_rng(0)
            spaces.append([np.round(r.uniform(-2, 2, size=d[1]), 2) for _ in range(nreal)])
        else:
            spaces.append(domain_points(d))
    total = 1
    for s in spaces:
        total *= len(s)
    pts = itertools.product(*spaces)
    if total <= limit:
        for pt in pts:
            yield dict(zip(names, pt))
    else:
        stride = total / float(limit)
        want = {int(i * stride) for i in range(limit)}
        for i, pt in enumerate(pts):
            if i in want:
                yield dict(zip(names, pt))
