"""Shared helpers: JSON (de)serialisation of cases, numeric comparison, per-shard result accumulator."""
import collections
import hashlib
import json
import os
import time

import numpy as np

VERIF_DIR = os.path.dirname(os.path.dirname(os.path.abspath(__file__)))


# ---------------------------------------------------------------------------
# JSON encoding of nested python/numpy values (tuples, dicts, arrays, floats incl. inf/nan)


def enc(x):
    if isinstance(x, np.ndarray):
        return {
            "__arr__": enc(x.tolist()),
            "dtype": str(x.dtype),
            "shape": list(x.shape),
        }
    if isinstance(x, (np.bool_,)):
        return bool(x)
    if isinstance(x, np.integer):
        return int(x)
    if isinstance(x, np.floating):
        return enc(float(x))
    if isinstance(x, float):
        if x != x:
            return {"__f__": "nan"}
        if x in (float("inf"), float("-inf")):
            return {"__f__": "inf" if x > 0 else "-inf"}
        return x
    if isinstance(x, slice):
        return {"__slice__": [x.start, x.stop, x.step]}
    if x is Ellipsis:
        return {"__ellipsis__": 1}
    if isinstance(x, tuple):
        return {"__t__": [enc(y) for y in x]}
    if isinstance(x, list):
        return [enc(y) for y in x]
    if isinstance(x, (set, frozenset)):
        return {"__s__": sorted((enc(y) for y in x), key=lambda v: json.dumps(v, sort_keys=True))}
    if isinstance(x, dict):
        return {"__d__": [[enc(k), enc(v)] for k, v in x.items()]}
    if isinstance(x, (str, int, bool)) or x is None:
        return x
    if hasattr(x, "to_json"):
        return x.to_json()
    return {"__repr__": repr(x)[:500]}


def dec(x):
    if isinstance(x, list):
        return [dec(y) for y in x]
    if isinstance(x, dict):
        if "__arr__" in x:
            return np.array(dec(x["__arr__"]), dtype=x["dtype"]).reshape(x["shape"])
        if "__f__" in x:
            return float(x["__f__"])
        if "__t__" in x:
            return tuple(dec(y) for y in x["__t__"])
        if "__slice__" in x:
            return slice(*x["__slice__"])
        if "__ellipsis__" in x:
            return Ellipsis
        if "__s__" in x:
            return frozenset(dec(y) for y in x["__s__"])
        if "__d__" in x:
            return collections.OrderedDict((dec(k), dec(v)) for k, v in x["__d__"])
        if "__repr__" in x:
            return x["__repr__"]
        return {k: dec(v) for k, v in x.items()}
    return x


def digest(x):
    """Canonical short hash of an encodable value."""
    s = json.dumps(enc(x), sort_keys=True, separators=(",", ":"))
    return hashlib.sha1(s.encode()).hexdigest()[:16]


def short(x, n=400):
    """Human-readable compact rendering for evidence samples."""

    def f(v):
        if isinstance(v, np.ndarray):
            if v.size <= 12:
                return "arr" + json.dumps(enc(v.tolist()))
            return "arr%s" % (tuple(v.shape),)
        if isinstance(v, (tuple, list)):
            return "(" + ",".join(f(y) for y in v) + ")"
        if isinstance(v, dict):
            return "{" + ",".join("%s:%s" % (f(k), f(y)) for k, y in v.items()) + "}"
        if isinstance(v, (set, frozenset)):
            return "{" + ",".join(sorted(f(y) for y in v)) + "}"
        if isinstance(v, float):
            return "%g" % v
        return str(v)

    s = f(x)
    return s if len(s) <= n else s[: n - 3] + "..."


# ---------------------------------------------------------------------------
# numeric comparison (DESIGN §5)


def close(a, b, rtol=1e-6, atol=1e-9):
    """True if a and b agree: exact for ints/bools/inf; relative tolerance for reals.
    NaN in the reference (b) is handled by the caller (undefined point)."""
    try:
        a = np.asarray(a)
        b = np.asarray(b)
    except Exception:
        return False
    if a.shape != b.shape:
        # allow scalar vs 0-d
        if a.size == b.size == 1:
            a = a.reshape(())
            b = b.reshape(())
        else:
            return False
    if a.dtype == object or b.dtype == object:
        return False
    if a.dtype.kind in "biu" and b.dtype.kind in "biu":
        return bool(np.all(a.astype(np.int64) == b.astype(np.int64)))
    a = a.astype(np.float64)
    b = b.astype(np.float64)
    with np.errstate(all="ignore"):
        eq = a == b
        scale = np.maximum(1.0, np.maximum(np.abs(a), np.abs(b)))
        near = np.abs(a - b) <= rtol * scale + atol
        fin = np.isfinite(a) & np.isfinite(b)
        bothnan = np.isnan(a) & np.isnan(b)
    return bool(np.all(eq | (near & fin) | bothnan))


def has_nan(x):
    try:
        x = np.asarray(x, dtype=np.float64)
    except Exception:
        return False
    return bool(np.isnan(x).any())


# ---------------------------------------------------------------------------
# shard result accumulator


class Result:
    """Accumulates what one shard observed; serialised as JSON for the parent."""

    MAX_SAMPLES = 6
    MAX_VIOLATIONS = 40

    def __init__(self):
        self.evaluations = 0
        self.nontrivial = set()
        self.counters = collections.Counter()
        self.samples = []
        self.violations = []
        self.sets = collections.defaultdict(set)
        self.t0 = time.time()
        self.inconclusive = []

    def case(self, key=None, nontrivial=False, sample=None):
        self.evaluations += 1
        if nontrivial and key is not None:
            self.nontrivial.add(key)
        if sample is not None and len(self.samples) < self.MAX_SAMPLES:
            self.samples.append(sample)

    def count(self, name, n=1):
        self.counters[name] += n

    def observe(self, setname, item):
        self.sets[setname].add(item)

    def violation(self, key, what, case=None, **extra):
        """key: mechanism key used by the known-findings classifier."""
        self.counters["violation:" + key] += 1
        if sum(1 for v in self.violations if v["key"] == key) >= 3:
            return
        if len(self.violations) >= self.MAX_VIOLATIONS:
            return
        d = {"key": key, "what": what, "case": enc(case)}
        d.update({k: enc(v) for k, v in extra.items()})
        self.violations.append(d)

    def to_json(self):
        return {
            "evaluations": self.evaluations,
            "nontrivial": sorted(self.nontrivial),
            "counters": dict(self.counters),
            "samples": self.samples,
            "violations": self.violations,
            "sets": {k: sorted(map(str, v)) for k, v in self.sets.items()},
            "wall_s": time.time() - self.t0,
            "inconclusive": self.inconclusive,
        }


def shard_rng(seed, *tags):
    """Deterministic generator from (VERIF_SEED, tags...)."""
    h = hashlib.sha1(("%d|" % seed + "|".join(map(str, tags))).encode()).digest()
    return np.random.Generator(np.random.PCG64(int.from_bytes(h[:8], "little")))
