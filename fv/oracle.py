"""Value oracle: compares a funsor result with the reference semantics of the IR program it came from."""
import numpy as np

from .build import bind_value
from .common import close, has_nan, short
from .ir import IllConditioned, IllTyped, Unsupported, show, typecheck
from .lift import dom_of, lift
from .refsem import all_envs, ref_eval


class Verdict:
    def __init__(self, status, kind=None, detail=None, points=0, skipped=0):
        self.status = status  # "ok" | "bad" | "undecided"
        self.kind = kind
        self.detail = detail
        self.points = points
        self.skipped = skipped

    def __repr__(self):
        return "Verdict(%s,%s,%s,pts=%d)" % (self.status, self.kind, self.detail, self.points)


def result_inputs(R):
    return {k: dom_of(d) for k, d in R.inputs.items()}


def is_ground(R):
    from funsor.tensor import Tensor
    from funsor.terms import Number

    return isinstance(R, (Tensor, Number))


def value_at(R, env, allow_bind=True):
    """value of funsor R at the point env; returns (value, how) or raises Unsupported"""
    from funsor.tensor import Tensor
    from funsor.terms import Number

    if isinstance(R, Number):
        return R.data, "number"
    if isinstance(R, Tensor):
        return np.asarray(R.data)[tuple(int(env[k]) for k in R.inputs)], "tensor"
    try:
        return ref_eval(lift(R), env), "lifted"
    except Unsupported:
        if not allow_bind:
            raise
    subs = {k: bind_value(dom_of(d), env[k]) for k, d in R.inputs.items()}
    try:
        G = R(**subs)
    except Exception as e:
        raise Unsupported("binding the result's inputs raised %s" % type(e).__name__)
    if isinstance(G, Number):
        return G.data, "bound"
    if isinstance(G, Tensor) and not G.inputs:
        return np.asarray(G.data), "bound"
    raise Unsupported("result is not reducible to a value: %s" % type(G).__name__)


def compare(R, P, rng=None, max_points=256, nreal=2, rtol=1e-6, check_output=True, exact_inputs=False, also_bind=0):
    """R: funsor produced by funsor for program P (IR). Returns Verdict."""
    try:
        p_inputs, p_out = typecheck(P)
    except Unsupported as e:
        return Verdict("undecided", "typecheck-unsupported", str(e))
    r_inputs = result_inputs(R)
    if check_output:
        try:
            r_out = dom_of(R.output)
        except Unsupported as e:
            return Verdict("undecided", "output-domain", str(e))
        if r_out != p_out:
            return Verdict("bad", "output-domain", "result declares %s, program has %s" % (r_out, p_out))
    extra = [k for k in r_inputs if k not in p_inputs]
    if extra:
        return Verdict("bad", "extra-input", "result has inputs %s not among the program's %s" % (extra, list(p_inputs)))
    for k, d in r_inputs.items():
        if p_inputs[k] != d:
            return Verdict("bad", "input-domain", "input %s: result %s, program %s" % (k, d, p_inputs[k]))
    if exact_inputs and set(r_inputs) != set(p_inputs):
        return Verdict("bad", "missing-input", "lazily built term has inputs %s, expected exactly %s" % (list(r_inputs), list(p_inputs)))
    n = 0
    skipped = 0
    bound_done = 0
    try:
        for env in all_envs(p_inputs, rng, nreal=nreal, limit=max_points):
            try:
                with np.errstate(all="ignore"):
                    expect = ref_eval(P, env)
            except IllConditioned:
                skipped += 1
                continue
            if has_nan(expect):
                skipped += 1
                continue
            with np.errstate(all="ignore"):
                got, how = value_at(R, env)
            n += 1
            if not close(got, expect, rtol=rtol):
                return Verdict("bad", "value", "at %s: got %s (%s) expected %s" % (
                    short({k: (v.tolist() if isinstance(v, np.ndarray) else v) for k, v in env.items()}, 200),
                    short(np.asarray(got).tolist(), 200), how, short(np.asarray(expect).tolist(), 200)), points=n)
            if how == "lifted" and bound_done < also_bind:
                bound_done += 1
                try:
                    subs = {k: bind_value(dom_of(d), env[k]) for k, d in R.inputs.items()}
                    with np.errstate(all="ignore"):
                        G = R(**subs)
                    if is_ground(G) and not G.inputs:
                        if not close(np.asarray(G.data), expect, rtol=rtol):
                            return Verdict("bad", "value-after-binding", "at %s: binding the free inputs gives %s expected %s" % (
                                short({k: (v.tolist() if isinstance(v, np.ndarray) else v) for k, v in env.items()}, 200),
                                short(np.asarray(G.data).tolist(), 200), short(np.asarray(expect).tolist(), 200)), points=n)
                except Exception:
                    pass  # binding declined
    except Unsupported as e:
        return Verdict("undecided", "oracle-unsupported", str(e), points=n, skipped=skipped)
    except IllTyped as e:
        return Verdict("undecided", "illtyped-at-eval", str(e), points=n, skipped=skipped)
    if n == 0:
        return Verdict("undecided", "no-defined-point", None, skipped=skipped)
    return Verdict("ok", points=n, skipped=skipped)


def describe(P):
    try:
        return show(P)
    except Exception:
        return "<unprintable>"
