"""IR -> funsor term through the public constructors, under whatever interpretation is active."""
from collections import OrderedDict

import numpy as np


def to_domain(dom):
    from funsor.domains import Bint, Reals

    if dom[0] == "real":
        return Reals[tuple(dom[1])]
    return Bint[(int(dom[0]),) + tuple(dom[1])] if dom[1] else Bint[int(dom[0])]


def get_op(name, params=()):
    from funsor import ops

    op = getattr(ops, name)
    if params:
        p = dict(params)
        if name == "getitem":
            return ops.GetitemOp(p.get("offset", 0))
        if name == "getslice":
            return ops.getslice(p["index"]) if False else ops.GetsliceOp(p["index"])
    return op


EXPLICIT_SUBS = False


class explicit_subs:
    """within this context `sub` nodes are built with the Subs constructor, keeping the order of the pairs"""

    def __enter__(self):
        global EXPLICIT_SUBS
        self.old = EXPLICIT_SUBS
        EXPLICIT_SUBS = True

    def __exit__(self, *a):
        global EXPLICIT_SUBS
        EXPLICIT_SUBS = self.old


def build(ir):
    import funsor
    from funsor import ops
    from funsor.cnf import Contraction
    from funsor.tensor import Tensor
    from funsor.terms import Cat, Independent, Lambda, Number, Slice, Stack, Variable

    k = ir[0]
    if k == "var":
        return Variable(ir[1], to_domain(ir[2]))
    if k == "num":
        return Number(ir[1], ir[2])
    if k == "ten":
        _, data, names, dtype = ir
        return Tensor(data, OrderedDict((n, to_domain((int(s), ()))) for n, s in zip(names, data.shape)), dtype)
    if k == "slice":
        _, name, start, stop, step, dtype = ir
        return Slice(name, start, stop, step, dtype)
    if k == "un":
        _, op, params, e = ir
        x = build(e)
        p = dict(params)
        if op in ("sum", "prod", "amax", "amin", "logsumexp", "mean", "all", "any", "argmax", "argmin"):
            return getattr(ops, op)(x, p.get("axis"), p.get("keepdims", False))
        if op in ("std", "var"):
            return getattr(ops, op)(x, p.get("axis"), p.get("ddof", 0), p.get("keepdims", False))
        if op == "reshape":
            return x.reshape(tuple(p["shape"]))
        if op == "getslice":
            return x[p["index"]]
        if op == "astype":
            return ops.astype(x, p["dtype"])
        return getattr(ops, op)(x)
    if k == "bin":
        _, op, params, l, r = ir
        a, b = build(l), build(r)
        if op == "getitem":
            pp = dict(params)
            off = pp.get("offset", 0)
            sugar = pp.get("sugar", 0)
            nd = len(a.output.shape)
            if sugar == 1:      # python indexing with leading full slices
                return a[(slice(None),) * off + (b,)]
            if sugar == 2:      # Ellipsis on the left: x[..., t, :, :]
                return a[(Ellipsis, b) + (slice(None),) * (nd - 1 - off)]
            if sugar == 3:      # Ellipsis on the right: x[:, t, ...]
                return a[(slice(None),) * off + (b, Ellipsis)]
            return ops.GetitemOp(off)(a, b) if off else a[b]
        return getattr(ops, op)(a, b)
    if k == "red":
        _, op, e, vs = ir
        x = build(e)
        return x.reduce(getattr(ops, op), frozenset(Variable(n, to_domain(d)) for n, d in vs))
    if k == "sub":
        _, e, subs = ir
        x = build(e)
        if EXPLICIT_SUBS:
            from funsor.terms import Subs

            return Subs(x, tuple((n, build(v)) for n, v in subs))  # pairs kept in the order given (Funsor.__call__ re-orders them)
        return x(**{n: build(v) for n, v in subs})
    if k == "stack":
        return Stack(ir[1], tuple(build(p) for p in ir[2]))
    if k == "cat":
        return Cat(ir[1], tuple(build(p) for p in ir[2]), ir[3])
    if k == "lam":
        return Lambda(Variable(ir[1], to_domain((ir[2], ()))), build(ir[3]))
    if k == "indep":
        return Independent(build(ir[1]), ir[2], ir[3], ir[4])
    if k == "fin":
        _, op, params, es = ir
        p = dict(params)
        args = tuple(build(e) for e in es)
        if op == "einsum":
            return ops.einsum(args, p["equation"])
        if op == "stack":
            return ops.stack(args, p["dim"])
        if op == "cat":
            return ops.cat(args, p["axis"])
    if k == "contr":
        _, red, binop, vs, terms = ir
        return Contraction(getattr(ops, red), getattr(ops, binop), frozenset(Variable(n, to_domain(d)) for n, d in vs),
                           *[build(t) for t in terms])
    if k == "delta":
        from funsor.delta import Delta

        return Delta(tuple((n, (build(p), build(ld))) for n, p, ld in ir[1]))
    if k == "gauss":
        from funsor.gaussian import Gaussian

        return Gaussian(white_vec=ir[1], prec_sqrt=ir[2], inputs=OrderedDict((n, to_domain(d)) for n, d in ir[3]))
    if k == "integ":
        from funsor.integrate import Integrate

        return Integrate(build(ir[1]), build(ir[2]), frozenset(Variable(n, to_domain(d)) for n, d in ir[3]))
    if k == "tuple":
        from funsor.terms import Tuple

        return Tuple(tuple(build(e) for e in ir[1]))
    if k == "align":
        return build(ir[1]).align(tuple(ir[2]))
    if k == "const":
        from funsor.constant import Constant

        return Constant(OrderedDict((n, to_domain(d)) for n, d in ir[1]), build(ir[2]))
    raise ValueError("build: " + str(k))


def bind_value(dom, v):
    """python/numpy value -> funsor value for substitution"""
    from funsor.tensor import Tensor
    from funsor.terms import Number

    if dom[0] == "real":
        return Tensor(np.asarray(v, dtype=np.float64))
    if dom[1] == ():
        return Number(int(v), int(dom[0]))
    return Tensor(np.asarray(v, dtype=np.int64), OrderedDict(), int(dom[0]))
