"""Parent process: plans shards, runs each in a fresh subprocess, merges, classifies, writes evidence.

usage: python -m fv.runner <ID> [--tier quick|thorough] [--jobs N]
       python -m fv.runner --replay <path>
Exit codes: 0 held on what was observed, 1 violation (VIOLATION line printed), 2 inconclusive.
"""
import argparse
import collections
import importlib
import json
import os
import shutil
import subprocess
import sys
import tempfile
import time
from concurrent.futures import ThreadPoolExecutor

from .common import VERIF_DIR, digest

PY = "/venv/bin/python"


def load_findings():
    """known_findings.txt: committed, never written at run time."""
    path = os.path.join(VERIF_DIR, "known_findings.txt")
    out = collections.defaultdict(dict)
    if not os.path.exists(path):
        return out
    for line in open(path):
        line = line.strip()
        if not line.startswith("finding:"):
            continue
        parts = line[len("finding:"):].split()
        kv = dict(p.split("=", 1) for p in parts[:2] if "=" in p)
        text = " ".join(parts[2:])
        out[kv["property"]][kv["key"]] = text
    return out


HASHSEEDS = {"quick": "0,1", "thorough": "0,1,2,3"}


def run_one(check_id, shard, tmp, idx):
    spec = os.path.join(tmp, "shard%d.json" % idx)
    out = os.path.join(tmp, "out%d.json" % idx)
    with open(spec, "w") as f:
        json.dump(shard, f)
    env = dict(os.environ)
    env["PYTHONPATH"] = VERIF_DIR + os.pathsep + env.get("PYTHONPATH", "")
    env.setdefault("PYTHONHASHSEED", "0")
    env["FUNSOR_VERIF"] = "1"
    env["FUNSOR_BACKEND"] = "numpy"
    for k in ("OMP_NUM_THREADS", "OPENBLAS_NUM_THREADS", "MKL_NUM_THREADS"):
        env[k] = "1"
    for k in ("FUNSOR_USE_TCO", "FUNSOR_TYPECHECK", "FUNSOR_DEBUG", "FUNSOR_PROFILE"):
        env.pop(k, None)
    env.update(shard.get("env", {}))
    timeout = shard.get("timeout", 900)
    if shard.get("tier") == "quick":
        timeout = min(timeout, 1500)   # a quick shard takes about a minute; the watchdog's firing is INCONCLUSIVE, never a violation
    t0 = time.time()
    try:
        p = subprocess.run(
            [PY, "-m", "fv.worker", check_id, spec, out],
            env=env, cwd=VERIF_DIR, timeout=timeout,
            stdout=subprocess.PIPE, stderr=subprocess.PIPE, text=True,
        )
    except subprocess.TimeoutExpired:
        return {"status": "timeout", "shard": shard, "wall_s": time.time() - t0}
    if p.returncode != 0 or not os.path.exists(out):
        return {"status": "crash", "shard": shard, "stderr": (p.stderr or "")[-3000:], "rc": p.returncode}
    with open(out) as f:
        r = json.load(f)
    r["status"] = "ok"
    r["shard"] = shard
    return r


def main(argv=None):
    ap = argparse.ArgumentParser()
    ap.add_argument("id", nargs="?")
    ap.add_argument("--tier", default=os.environ.get("VERIF_TIER", "quick"))
    ap.add_argument("--jobs", type=int, default=int(os.environ.get("VERIF_JOBS", "16")))
    ap.add_argument("--replay")
    ap.add_argument("--no-evidence", action="store_true")
    args = ap.parse_args(argv)

    if args.replay:
        with open(args.replay) as f:
            rep = json.load(f)
        check_id = rep["property"]
        shard = {"name": "replay", "replay": rep, "seed": rep.get("seed", 0), "tier": rep.get("tier", "quick"),
                 "env": dict(rep.get("violation", {}).get("env", {}))}
        mod = importlib.import_module("fv.checks." + check_id.lower())
        only_key = None
        if not hasattr(mod, "replay"):
            # no case-level replay for this check: re-run the deterministic shard that produced the violation (same seed, tier,
            # shard name and hash seed) and report the violations with the recorded key
            planned = [s for s in mod.plan(shard["tier"], shard["seed"]) if s.get("name") == rep.get("shard")]
            if not planned:
                print("INCONCLUSIVE property=%s reason=replay-shard-not-found (%s)" % (check_id, rep.get("shard")))
                return 2
            env = shard["env"]
            shard = dict(planned[0], seed=shard["seed"], tier=shard["tier"])
            shard.setdefault("env", {}).update(env)
            shard["env"].setdefault("PYTHONHASHSEED", "0")
            only_key = rep.get("key")
        tmp = tempfile.mkdtemp(prefix="fv-replay-")
        try:
            r = run_one(check_id, shard, tmp, 0)
        finally:
            shutil.rmtree(tmp, ignore_errors=True)
        if r["status"] != "ok":
            print("INCONCLUSIVE property=%s reason=replay-%s" % (check_id, r["status"]))
            print(r.get("stderr", ""))
            return 2
        known = load_findings().get(check_id, {})
        if only_key is not None:
            r["violations"] = [v for v in r["violations"] if v["key"] == only_key][:3]
        bad = [v for v in r["violations"] if v["key"] not in known]
        for v in r["violations"]:
            print(("VIOLATION" if v["key"] not in known else "KNOWN-FINDING:") + " property=%s key=%s %s" % (check_id, v["key"], v["what"]))
        if not r["violations"]:
            print("replay: no violation reproduced")
        return 1 if bad else 0

    check_id = args.id
    tier = args.tier if args.tier in ("quick", "thorough") else "quick"
    seed = int(os.environ.get("VERIF_SEED", "0"))
    mod = importlib.import_module("fv.checks." + check_id.lower())
    t0 = time.time()
    shards = mod.plan(tier, seed)
    for i, s in enumerate(shards):
        s.setdefault("name", "shard%d" % i)
        s["seed"] = seed
        s["tier"] = tier
        # set/dict iteration order is part of funsor's "schedule" (frozensets of reduced variables, operand sets): shards rotate through
        # several string-hash seeds so that different iteration orders are explored; the seed is recorded in every replay
        hs = [h for h in os.environ.get("FV_HASHSEEDS", HASHSEEDS[tier]).split(",") if h]
        s.setdefault("env", {}).setdefault("PYTHONHASHSEED", hs[i % len(hs)])
    tmp = tempfile.mkdtemp(prefix="fv-%s-" % check_id)
    try:
        with ThreadPoolExecutor(max_workers=max(1, args.jobs)) as ex:
            results = list(ex.map(lambda iv: run_one(check_id, iv[1], tmp, iv[0]), enumerate(shards)))
    finally:
        shutil.rmtree(tmp, ignore_errors=True)

    # ---- merge
    evaluations = 0
    nontrivial = set()
    counters = collections.Counter()
    sets = collections.defaultdict(set)
    samples = []
    violations = []
    inconclusive = []
    for r in results:
        if r["status"] == "timeout":
            inconclusive.append("watchdog fired on shard %s" % r["shard"].get("name"))
            continue
        if r["status"] == "crash":
            inconclusive.append("worker crashed on shard %s rc=%s: %s" % (r["shard"].get("name"), r.get("rc"), r.get("stderr", "")[-400:].replace("\n", " | ")))
            continue
        evaluations += r["evaluations"]
        nontrivial.update(r["nontrivial"])
        counters.update(r["counters"])
        for k, v in r["sets"].items():
            sets[k].update(v)
        for s in r["samples"]:
            if len(samples) < 8:
                samples.append(s)
        for v in r["violations"]:
            v["shard"] = r["shard"].get("name")
            v["env"] = r["shard"].get("env", {})
            violations.append(v)
        counters["hashseed:%s" % r["shard"].get("env", {}).get("PYTHONHASHSEED", "0")] += 1
        inconclusive.extend(r.get("inconclusive", []))

    known = load_findings().get(check_id, {})
    known_seen = collections.OrderedDict()
    new = []
    for v in violations:
        if v["key"] in known:
            known_seen.setdefault(v["key"], known[v["key"]])
        else:
            new.append(v)

    # ---- inconclusive rules
    minimum = getattr(mod, "MIN_NONTRIVIAL", {"quick": 2, "thorough": 2}).get(tier, 2)
    if len(nontrivial) < minimum:
        inconclusive.append("only %d distinct non-trivial cases (< %d)" % (len(nontrivial), minimum))
    for name in getattr(mod, "REQUIRED_COUNTERS", []):
        if counters.get(name, 0) <= 0:
            inconclusive.append("deciding monitor counter %r is zero" % name)
    if hasattr(mod, "finish"):
        inconclusive.extend(mod.finish(counters, sets, tier) or [])

    wall = time.time() - t0
    coverage = {
        "evaluations": int(evaluations),
        "distinct_nontrivial": len(nontrivial),
        "rule": getattr(mod, "RULE", ""),
        "samples": samples if samples else ["(no sample recorded)"],
        "counters": dict(sorted(counters.items())),
        "observed_sets": {k: sorted(v) for k, v in sorted(sets.items())},
        "shards": len(shards),
        "known_findings_seen": list(known_seen),
        "inconclusive_reasons": inconclusive,
    }
    if getattr(mod, "EXHAUSTIVE", {}).get(tier):
        coverage["exhaustive"] = True
    evidence = {
        "property_id": check_id,
        "tier": tier,
        "seed": seed,
        "level": getattr(mod, "LEVEL", "exploration"),
        "coverage": coverage,
        "assumptions": getattr(mod, "ASSUMPTIONS", []),
        "wall_s": round(wall, 2),
        "violations": len(new),
    }
    if not args.no_evidence:
        os.makedirs(os.path.join(VERIF_DIR, "evidence"), exist_ok=True)
        with open(os.path.join(VERIF_DIR, "evidence", check_id + ".json"), "w") as f:
            json.dump(evidence, f, indent=1, sort_keys=True)

    print("%s tier=%s seed=%d evaluations=%d distinct_nontrivial=%d wall=%.1fs" % (
        check_id, tier, seed, evaluations, len(nontrivial), wall))
    for k, text in known_seen.items():
        print("KNOWN-FINDING: property=%s %s [key=%s]" % (check_id, text, k))
    if new:
        os.makedirs(os.path.join(VERIF_DIR, "replays"), exist_ok=True)
        seen_keys = set()
        for v in new:
            rep = {"property": check_id, "seed": seed, "tier": tier, "key": v["key"], "what": v["what"],
                   "shard": v.get("shard"), "violation": v}
            path = os.path.join(VERIF_DIR, "replays", "%s-%s.json" % (check_id, digest(rep)))
            with open(path, "w") as f:
                json.dump(rep, f, indent=1)
            if v["key"] not in seen_keys and len(seen_keys) < 25:
                print("VIOLATION property=%s replay=%s" % (check_id, path))
                print("  key=%s: %s" % (v["key"], v["what"][:600]))
            seen_keys.add(v["key"])
        return 1
    if inconclusive:
        for r in inconclusive[:6]:
            print("INCONCLUSIVE property=%s reason=%s" % (check_id, r[:700]))
        if len(inconclusive) > 6:
            print("INCONCLUSIVE property=%s (+%d more reasons, see evidence file)" % (check_id, len(inconclusive) - 6))
        return 2
    return 0


if __name__ == "__main__":
    sys.exit(main())
