"""Engines as plain workloads for the cross-cutting monitors (C02 dispatch, C06 types, C16 dispatch order, C20 mutation).

Each engine yields (label, holder, thunk): `holder` is the IR / list of arrays the harness owns (write-protected and hashed by
the mutation monitor), `thunk()` runs the funsor computation and returns its result(s). No oracle is evaluated here.
"""
import numpy as np


def e1(rng, n):
    from .build import build
    from .gen.e1 import Gen

    modes = [("free", 0.0), ("arith", 0.2), ("tropical", 0.2), ("nonneg", 0.2)]
    shapes = [(), (), (2,), (3,), (2, 3)]
    gens = [Gen(rng, real_vars=rv, mode=m) for m, rv in modes]
    for i in range(n):
        g = gens[i % len(gens)]
        P = g.real(2 + (i % 2), shapes[int(rng.integers(len(shapes)))])
        yield "E1:eager:" + g.mode, P, (lambda P=P: build(P))


def e1_lazy(rng, n):
    """programs whose reductions survive eager evaluation (the reduced variable occurs in a lazy operand), with operations on top:
    drives the rules registered for lazy Contractions under every semiring family"""
    import funsor
    from funsor.interpretations import lazy, normalize

    from .build import build
    from .gen.e1 import Gen

    allow = {"lazyred", "lazyred", "un", "bin", "sub", "red"}
    for i in range(n):
        g = Gen(rng, real_vars=0.15, mode=["arith", "tropical", "nonneg"][i % 3], allow=allow)
        P = g.k_lazyred(2, ()) if i % 2 == 0 else g.real(3, ())
        if i % 3 == 0:
            yield "E1-lazy:eager", P, (lambda P=P: build(P))
        else:
            ctx = [lazy, normalize][i % 2]

            def thunk(P=P, ctx=ctx):
                with ctx:
                    L = build(P)
                return funsor.reinterpret(L)

            yield "E1-lazy:routes", P, thunk


def e1_routes(rng, n):
    import funsor
    from funsor.interpretations import lazy, moment_matching, normalize, reflect, sequential

    from .build import build
    from .gen.e1 import Gen

    routes = [("lazy", lazy), ("normalize", normalize), ("reflect", reflect)]
    for i in range(n):
        g = Gen(rng, real_vars=0.2, mode=["arith", "tropical", "nonneg"][i % 3])
        P = g.real(2 + (i % 2), [(), (2,)][i % 2])
        name, ctx = routes[i % len(routes)]

        def thunk(P=P, ctx=ctx):
            with ctx:
                L = build(P)
            return funsor.reinterpret(L)

        yield "E1:" + name + "+reinterpret", P, thunk
        direct = [("sequential", sequential), ("moment_matching", moment_matching)][i % 2]

        def thunk2(P=P, ctx=direct[1]):
            with ctx:
                return build(P)

        yield "E1:" + direct[0], P, thunk2


def e2(rng, n):
    from .build import build
    from .checks.c04 import build_route
    from .gen import e2 as g2
    from .ir import IllTyped, Unsupported, typecheck

    subs = g2.subjects(rng)
    count = 0
    while count < n:
        label, f = subs[int(rng.integers(len(subs)))]
        try:
            f_inputs, _ = typecheck(f)
        except (IllTyped, Unsupported):
            continue
        names = list(f_inputs)
        if not names:
            continue
        k = int(rng.integers(1, min(3, len(names)) + 1))
        chosen = [names[i] for i in rng.permutation(len(names))[:k]]
        pairs = []
        for nm in chosen:
            cl = g2.value_classes(rng, nm, f_inputs[nm], f_inputs)
            if cl:
                pairs.append((nm, cl[int(rng.integers(len(cl)))][1]))
        if not pairs:
            continue
        S = ("sub", f, tuple(pairs))
        try:
            typecheck(S)
        except (IllTyped, Unsupported):
            continue
        count += 1
        route = ("eager", "lazy", "reflect")[count % 3]
        yield "E2:%s:%s" % (route, label), S, (lambda S=S, route=route: build_route(route, S))


def e3(rng, n):
    from .checks.c05 import families, run_route
    from .ir import IllTyped, Unsupported, typecheck

    fams = []
    for i, (fam, P) in enumerate(families(rng)):
        fams.append((fam, P))
    idx = rng.permutation(len(fams))[: n]
    for j, i in enumerate(idx):
        fam, P = fams[int(i)]
        try:
            typecheck(P)
        except (IllTyped, Unsupported):
            continue
        route = ("eager", "lazy", "reflect", "normalize", "optimizer")[j % 5]
        yield "E3:%s:%s" % (route, fam), P, (lambda P=P, route=route: run_route(route, P))


def e4(rng, n):
    from .checks.c08 import run_route
    from .gen.e4 import SEMIRINGS, SemiringGen

    for i in range(n):
        sr = SEMIRINGS[i % len(SEMIRINGS)]
        P = SemiringGen(rng, sr).program(3 + (i % 2))
        route = ("eager", "normalize", "unfold", "optimizer")[i % 4]
        yield "E4:%s:%s,%s" % (route, sr[0], sr[1]), P, (lambda P=P, route=route: run_route(route, P))


def einsum(rng, n):
    from collections import OrderedDict

    from funsor.domains import Bint
    from funsor.einsum import einsum as f_einsum
    from funsor.tensor import Tensor

    eqs = ["ab,bc->ac", "a,ab,b->", "ab,ab->a", "abc,c->ab", "a,a->", "ab->ba", "ab,bc,cd->ad", "a,b->ab", "ab,b->"]
    backends = ["numpy", "funsor.einsum.numpy_log", "funsor.einsum.numpy_map"]
    for i in range(n):
        eq = eqs[i % len(eqs)]
        ins = eq.split("->")[0].split(",")
        sizes = {s: int(rng.integers(1, 4)) for s in set("".join(ins))}
        operands = [np.round(rng.uniform(0.25, 2, size=tuple(sizes[s] for s in spec)), 2) for spec in ins]
        be = backends[i % 3]

        def thunk(eq=eq, ins=ins, sizes=sizes, operands=operands, be=be):
            fs = [Tensor(o, OrderedDict((s, Bint[sizes[s]]) for s in spec)) for spec, o in zip(ins, operands)]
            return f_einsum(eq, *fs, backend=be)

        yield "einsum:" + be, operands, thunk


def _mod(name):
    import importlib

    return importlib.import_module("fv.checks." + name)


def engines():
    """name -> generator function(rng, n)"""
    out = {"E1": e1, "E1-lazy": e1_lazy, "E1-routes": e1_routes, "E2": e2, "E3": e3, "E4": e4, "einsum": einsum, "E12-synth": synth}
    for name, label in (("c09", "E5-plated"), ("c10", "E6-markov"), ("c11", "E7-adjoint"), ("c12", "E8-gaussian"), ("c13", "E9-marginals"),
                        ("c14", "E10-sampling"), ("c18", "E14-compiler")):
        out[label] = (lambda rng, n, name=name: _mod(name).workload(rng, n))
    return out


def synth(rng, n):
    """hand-written constructions that drive rules random programs seldom reach (Constant, Integrate, Delta, Align, Tuple, nested Subs, ...)"""
    from collections import OrderedDict

    import funsor
    from funsor import ops
    from funsor.constant import Constant
    from funsor.delta import Delta
    from funsor.domains import Bint, Real, Reals
    from funsor.integrate import Integrate
    from funsor.interpretations import lazy, moment_matching, normalize, reflect
    from funsor.tensor import Tensor
    from funsor.terms import Independent, Lambda, Number, Subs, Tuple, Variable

    from .dense import random_gaussian

    def T(names, eshape=(), sizes=dict(i=2, j=3, k=2), nonneg=False):
        d = np.round(rng.uniform(-1.5, 1.5, size=tuple(sizes[k] for k in names) + eshape), 2)
        return Tensor(np.abs(d) if nonneg else d, OrderedDict((k, Bint[sizes[k]]) for k in names))

    x = Variable("x", Real)
    y = Variable("y", Real)
    jobs = []
    # Constant
    jobs.append(("Constant+Tensor", lambda: Constant(OrderedDict(c=Bint[2]), T("i")) + T("ij")))
    jobs.append(("Tensor*Constant", lambda: T("ij") * Constant(OrderedDict(c=Bint[2]), T("j"))))
    jobs.append(("Constant+Constant", lambda: Constant(OrderedDict(c=Bint[2]), T("i")) + Constant(OrderedDict(d=Bint[3]), T("i"))))
    jobs.append(("Constant.exp", lambda: Constant(OrderedDict(c=Bint[2]), T("i")).exp()))
    jobs.append(("Constant.reduce", lambda: Constant(OrderedDict(c=Bint[2]), T("i")).reduce(ops.add, "c")))
    jobs.append(("Constant.reduce-both", lambda: Constant(OrderedDict(c=Bint[2]), T("i")).reduce(ops.add, frozenset(["c", "i"]))))
    jobs.append(("Constant(subs)", lambda: Constant(OrderedDict(c=Bint[2]), T("ij"))(c=1, i=0)))
    # Align
    jobs.append(("Align+Tensor", lambda: (T("ij") * x).align(("j", "i", "x")) + T("j")))
    jobs.append(("Tensor+Align", lambda: T("j") + (T("ij") * x).align(("x", "j", "i"))))
    jobs.append(("Align+Align", lambda: (T("ij") * x).align(("j", "i", "x")) + (T("jk") * x).align(("k", "j", "x"))))
    jobs.append(("Align.reduce", lambda: (T("ij") * x).align(("j", "i", "x")).reduce(ops.add, "i")))
    jobs.append(("Align(subs)", lambda: (T("ij") * x).align(("j", "i", "x"))(i=1)))
    # Tuple
    jobs.append(("Tuple[0]", lambda: Tuple((T("i"), x, Number(2.0)))[0]))
    jobs.append(("Tuple[1:]", lambda: Tuple((T("i"), x, Number(2.0)))[1:]))
    # nested substitutions built lazily
    def nested_subs():
        with lazy:
            e = (T("ij") * x)
        with reflect:
            s1 = Subs(e, (("i", Variable("k", Bint[2])),))
            s2 = Subs(s1, (("k", Number(1, 2)),))
        return funsor.reinterpret(s2)
    jobs.append(("Subs(Subs)", nested_subs))
    def nested_subs_norm():
        with reflect:
            s1 = Subs(T("ij") * x, (("i", Variable("k", Bint[2])),))
            s2 = Subs(s1, (("k", Variable("i", Bint[2])), ("x", y + 1.0)))
        with normalize:
            return funsor.reinterpret(s2)
    jobs.append(("normalize Subs(Subs)", nested_subs_norm))
    def fuse_norm():
        with normalize:
            inner = Subs(ops.exp(x), (("x", ops.exp(y)),))
            return Subs(inner, (("y", Variable("z", Real) * 2.0),))
    jobs.append(("normalize fuse Subs(Subs)", fuse_norm))
    def fuse_eager():
        g = random_gaussian(rng, OrderedDict([("x", ("real", ())), ("i", (2, ()))]), full_rank=True, param="white_vec+prec_sqrt").build()
        inner = g(x=ops.exp(y))          # a lazy Subs: the value is not affine
        return inner(y=T("i"))
    jobs.append(("eager Subs(Subs(Gaussian))", fuse_eager))
    def fuse_eager2():
        g = random_gaussian(rng, OrderedDict([("x", ("real", ())), ("i", (2, ()))]), full_rank=True, param="white_vec+prec_sqrt").build()
        inner = g(x=ops.exp(y) + Variable("w", Real))
        return inner(y=Variable("y2", Real) * 0.5, i=1)
    jobs.append(("eager Subs(Subs(Gaussian)) partial", fuse_eager2))
    jobs.append(("log(exp(lazy))", lambda: ops.log(ops.exp(T("i") * x))))
    jobs.append(("exp(log(lazy))", lambda: ops.exp(ops.log(T("i", nonneg=True) * x))))
    jobs.append(("Lambda[...,0]", lambda: Lambda(Variable("i", Bint[2]), T("ij", (3,)) * x)[..., 0]))
    jobs.append(("Lambda[0]", lambda: Lambda(Variable("i", Bint[2]), T("ij", (3,)) * x)[0]))
    jobs.append(("Lambda[:, 1]", lambda: Lambda(Variable("i", Bint[2]), T("ij", (3,)))[:, 1]))
    jobs.append(("ops.stack(tensors)", lambda: ops.stack((T("i"), T("j"), T("ij")), 0)))
    jobs.append(("ops.cat(tensors)", lambda: ops.cat((T("i", (2,)), T("j", (1,))), -1)))
    jobs.append(("einsum(tensors)", lambda: ops.einsum((T("i", (2, 3)), T("j", (3,))), "ab,b->a")))
    # Delta
    jobs.append(("Delta+Delta", lambda: Delta("u", T("i")) + Delta("v", T("j"))))
    jobs.append(("f+Delta", lambda: (T("i") * Variable("u", Real)) + Delta("u", T("i"))))
    jobs.append(("Delta+f", lambda: Delta("u", T("i")) + (T("j") * Variable("u", Real))))
    jobs.append(("Delta.reduce", lambda: (Delta("u", T("i")) + T("ij")).reduce(ops.logaddexp, "u")))
    jobs.append(("Independent(Delta)", lambda: Independent(Delta("u", T("ij"), T("i")), "r", "j", "u")))
    jobs.append(("Integrate(Delta)", lambda: Integrate(Delta("u", T("i")), Variable("u", Real) * T("ij"), frozenset([Variable("u", Real)]))))
    jobs.append(("Integrate(discrete)", lambda: Integrate(T("ij"), T("jk") * x, frozenset([Variable("j", Bint[3])]))))
    jobs.append(("Integrate(discrete, lazy measure)", lambda: Integrate(T("ij") + x, T("jk"), frozenset([Variable("j", Bint[3])]))))
    # Gaussian integrals and mixtures
    def gauss(real_shapes=((),), ints=("i",)):
        inputs = OrderedDict([(n, ("real", s)) for n, s in zip("xyz", real_shapes)] + [(k, (2, ())) for k in ints])
        return random_gaussian(rng, inputs, full_rank=True, param="white_vec+prec_sqrt")
    def int_var():
        g = gauss(((2,),)).build()
        return Integrate(g, Variable("x", Reals[2]), frozenset([Variable("x", Reals[2])]))
    jobs.append(("Integrate(G, Variable)", int_var))
    def int_gg():
        s = gauss(((), (2,)))
        return Integrate(s.build(), gauss(((), (2,))).build(), frozenset([Variable("x", Real), Variable("y", Reals[2])]))
    jobs.append(("Integrate(G, G)", int_gg))
    jobs.append(("Integrate(G, -G)", lambda: Integrate(gauss(((),)).build(), -gauss(((),)).build(), frozenset([Variable("x", Real)]))))
    jobs.append(("Integrate(G, G+G)", lambda: Integrate(gauss(((),)).build(), gauss(((),)).build() + (-gauss(((),)).build()), frozenset([Variable("x", Real)]))))
    jobs.append(("Integrate(mixture, G)", lambda: Integrate(T("i") + gauss(((),)).build(), gauss(((),)).build(), frozenset([Variable("x", Real)]))))
    jobs.append(("G-G", lambda: gauss(((),)).build() - gauss(((),)).build()))
    jobs.append(("mixture+mixture reduce", lambda: ((T("i") + gauss(((),)).build()) + (T("i") + gauss(((),)).build())).reduce(ops.logaddexp, "x")))
    def mm():
        with moment_matching:
            return (T("i") + gauss(((2,),)).build()).reduce(ops.logaddexp, "i")
    jobs.append(("moment_matching mixture", mm))
    jobs.append(("Independent(joint)", lambda: Independent(Delta("u", T("ij")) + T("ij"), "r", "j", "u")))
    def fn():
        @funsor.function(Reals[3], Reals[3], Reals[3])
        def f(a, b):
            return a + b
        return f(T("i", (3,)), T("j", (3,)))
    jobs.append(("funsor.function", fn))
    # rules that no generated program reached (evidence/C02: registered but never fired): built directly
    from funsor.cnf import Contraction

    def contraction_mixtures():
        m1, m2 = T("i") + gauss(((),)).build(), T("i") + gauss(((),)).build()
        return Contraction(ops.logaddexp, ops.add, frozenset([x]), m1, m2)
    jobs.append(("Contraction(logaddexp,add,{x},mixture,mixture)", contraction_mixtures))
    def contraction_mixtures_int():
        m1, m2 = T("i") + gauss(((),)).build(), T("ij") + gauss(((),)).build()
        return Contraction(ops.logaddexp, ops.add, frozenset([x, Variable("i", Bint[2])]), m1, m2)
    jobs.append(("Contraction(logaddexp,add,{x,i},mixture,mixture)", contraction_mixtures_int))
    jobs.append(("Contraction(add,mul,{x},exp(G),G)", lambda: Contraction(ops.add, ops.mul, frozenset([x]), gauss(((),)).build().exp(), gauss(((),)).build())))
    jobs.append(("Contraction(add,mul,{x},exp(G),x)", lambda: Contraction(ops.add, ops.mul, frozenset([x]), gauss(((),)).build().exp(), x)))
    jobs.append(("Contraction(add,mul,{i},exp(T),T)", lambda: Contraction(ops.add, ops.mul, frozenset([Variable("i", Bint[2])]), T("ij").exp(), T("ik"))))
    jobs.append(("Contraction(add,mul,{x},exp(mixture),G)", lambda: Contraction(ops.add, ops.mul, frozenset([x]), (T("i") + gauss(((),)).build()).exp(), gauss(((),)).build())))
    def distribute_integrate():
        with lazy:
            s = gauss(((),)).build() + (-gauss(((),)).build())
        with normalize:
            s = funsor.reinterpret(s)
        return Integrate(gauss(((),)).build(), s, frozenset([x]))
    jobs.append(("Integrate(G, normal form of G + -G)", distribute_integrate))
    jobs.append(("exp(G).reduce(add,x)", lambda: gauss(((),)).build().exp().reduce(ops.add, "x")))
    jobs.append(("exp(mixture).reduce(add,{x,i})", lambda: (T("i") + gauss(((),)).build()).exp().reduce(ops.add, frozenset(["x", "i"]))))
    jobs.append(("exp(lazy).reduce(add,i)", lambda: (T("ij") * x).exp().reduce(ops.add, "i")))
    jobs.append(("Independent(no diag var)", lambda: Independent(T("ij"), "r", "j", "u")))
    jobs.append(("Independent(lazy, no diag var)", lambda: Independent(T("ij") * x, "r", "j", "u")))
    def norm_trivial():
        with normalize:
            return Contraction(ops.null, ops.null, frozenset(), T("ij") * x)
    jobs.append(("normalize Contraction(null,null,{},f)", norm_trivial))
    from funsor.terms import Binary
    jobs.append(("Binary(getitem,Tuple,Number)", lambda: Binary(ops.getitem, Tuple((T("i"), x, Number(2.0))), Number(1, 3))))
    def align_align():
        a = (T("ij") * x).align(("j", "i", "x"))
        b = (T("jk") * x).align(("k", "j", "x"))
        return Binary(ops.sub, a, b)
    jobs.append(("Binary(sub,Align,Align)", align_align))
    for i in range(n):
        label, thunk = jobs[i % len(jobs)]
        yield "synth:" + label, [], thunk
