"""IR of programs (plain tuples, independent of funsor objects) and independent typing rules.

Domains are pairs (dtype, shape): dtype is "real" or a positive int n (values in [0, n)); shape is a tuple of ints.

Node kinds (first element is the tag):
  ("var", name, dom)
  ("num", value, dtype)
  ("ten", ndarray, names, dtype)              inputs are scalar bounded ints, sizes taken from the array's leading shape
  ("un", opname, params, e)                   params: tuple of (key, value) pairs
  ("bin", opname, params, l, r)
  ("red", opname, e, vars)                    vars: tuple of (name, dom)
  ("sub", e, subs)                            subs: tuple of (name, value_ir)
  ("stack", name, parts)
  ("cat", name, parts, part_name)
  ("slice", name, start, stop, step, dtype)
  ("lam", name, size, e)
  ("indep", e, reals_var, bint_var, diag_var)
  ("fin", opname, params, es)                 einsum / stack / cat on output dims
  ("contr", red_op, bin_op, vars, terms)
  ("delta", terms)                            terms: tuple of (name, point_ir, log_density_ir)
  ("gauss", white_vec, prec_sqrt, inputs)     inputs: tuple of (name, dom)
  ("integ", log_measure, integrand, vars)
  ("align", e, names)   ("const", const_inputs, e)   ("tuple", es)   ("approx", opname, model, guide, vars)
  ("markov", sum_op, prod_op, trans, time(name,dom), step((prev,curr),...), step_names((name,name),...))
  ("scatter", opname, subs, source, vars)
  ("opaque", description)                     anything lift() cannot represent
"""
from collections import OrderedDict

import numpy as np


class IllTyped(Exception):
    pass


class Unsupported(Exception):
    pass


class IllConditioned(Exception):
    """the reference value at this point is numerically unstable (e.g. a comparison of two almost equal reals)"""


REAL = ("real", ())


def bint(n, shape=()):
    return (int(n), tuple(shape))


def reals(*shape):
    return ("real", tuple(shape))


def is_real(dom):
    return dom[0] == "real"


def merge_inputs(*ds):
    out = OrderedDict()
    for d in ds:
        for k, v in d.items():
            if out.setdefault(k, v) != v:
                raise IllTyped("one name with two domains: %s: %s vs %s" % (k, out[k], v))
    return out


def bshape(*shapes):
    try:
        return tuple(int(s) for s in np.broadcast_shapes(*shapes))
    except ValueError:
        raise IllTyped("shapes do not broadcast: %s" % (shapes,))


POINTWISE_REAL_UNARY = {"exp", "log", "sqrt", "sigmoid", "tanh", "atanh", "log1p", "reciprocal", "lgamma", "softplus"}
POINTWISE_SAME_UNARY = {"neg", "abs", "pos", "invert"}
REDUCTIONS = {"sum", "prod", "amax", "amin", "logsumexp", "mean", "std", "var", "all", "any", "argmax", "argmin"}
COMPARISONS = {"eq", "ne", "lt", "le", "gt", "ge"}
ARITH = {"add", "sub", "mul", "truediv", "pow", "max", "min", "logaddexp", "sample", "safesub", "safediv", "floordiv", "mod"}
LOGICAL = {"and_", "or_", "xor"}


def reduction_shape(shape, axis, keepdims):
    nd = len(shape)
    if axis is None:
        dims = set(range(nd))
    elif isinstance(axis, int):
        if nd == 0 or not -nd <= axis < nd:
            raise IllTyped("axis out of range")
        dims = {axis % nd}
    else:
        if nd == 0 or any(not -nd <= a < nd for a in axis):
            raise IllTyped("axis out of range")
        dims = {a % nd for a in axis}
        if len(dims) != len(tuple(axis)):
            raise IllTyped("duplicate axis")
    if keepdims:
        return tuple(1 if i in dims else shape[i] for i in range(nd))
    return tuple(shape[i] for i in range(nd) if i not in dims)


def unary_output(op, params, dom):
    dtype, shape = dom
    p = dict(params)
    if op in POINTWISE_REAL_UNARY:
        return ("real", shape)
    if op in POINTWISE_SAME_UNARY:
        return (dtype, shape)
    if op in REDUCTIONS:
        out_shape = reduction_shape(shape, p.get("axis"), p.get("keepdims", False))
        if op in ("all", "any"):
            return (2, out_shape)
        if op in ("argmax", "argmin"):
            raise Unsupported("argmax typing")
        if dtype != "real":
            raise IllTyped("reduction of bounded ints has no documented type")
        return ("real", out_shape)
    if op == "reshape":
        tgt = tuple(p["shape"])
        if int(np.prod(tgt, dtype=int)) != int(np.prod(shape, dtype=int)) or any(s < 0 for s in tgt):
            raise IllTyped("reshape size")
        return (dtype, tgt)
    if op == "getslice":
        try:
            out = np.empty(shape, dtype=np.int8)[p["index"]].shape
        except Exception:
            raise IllTyped("bad getslice index")
        return (dtype, tuple(int(s) for s in out))
    if op == "astype":
        t = p["dtype"]
        if t in ("float", "double", "float32", "float64"):
            return ("real", shape)
        if t == "bool":
            return (2, shape)
        return (dtype, shape)
    raise Unsupported("unary op " + op)


def binary_output(op, params, l, r):
    p = dict(params)
    if op == "getitem":
        offset = p.get("offset", 0)
        if not (0 <= offset < len(l[1])):
            raise IllTyped("getitem offset")
        if r[0] == "real" or r[1] != ():
            raise IllTyped("getitem index must be a scalar bounded int")
        if r[0] != l[1][offset]:
            raise IllTyped("getitem index size %s != dim %s" % (r[0], l[1][offset]))
        return (l[0], l[1][:offset] + l[1][offset + 1:])
    if op == "matmul":
        a, b = l[1], r[1]
        if not a or not b or l[0] != "real" or r[0] != "real":
            raise IllTyped("matmul operands")
        try:
            out = np.matmul(np.empty(a, dtype=np.int8), np.empty(b, dtype=np.int8)).shape
        except ValueError:
            raise IllTyped("matmul shapes")
        return ("real", tuple(int(s) for s in out))
    shape = bshape(l[1], r[1])
    if op in COMPARISONS:
        return (2, shape)
    if op in LOGICAL:
        if l[0] == "real" or r[0] == "real":
            raise IllTyped("logical op on reals")
        return (2, shape)
    if op in ARITH:
        if l[0] == "real" and r[0] == "real":
            return ("real", shape)
        if l[0] == "real" or r[0] == "real":
            if op in ("add", "mul", "max", "min", "logaddexp", "sample"):
                return ("real", shape)
            raise IllTyped("mixed real/int operands for %s" % op)
        # bounded ints: the exact image of the ranges
        a, b = l[0], r[0]
        if op == "add":
            return (a + b - 1, shape)
        if op == "mul":
            return ((a - 1) * (b - 1) + 1, shape)
        if op in ("max",):
            return (max(a, b), shape)
        if op in ("min",):
            return (min(a, b), shape)
        if op == "pow":
            return (max((a - 1) ** (b - 1), 1) + 1, shape)
        raise Unsupported("bounded-int %s" % op)
    raise Unsupported("binary op " + op)


def typecheck(ir):
    """returns (inputs: OrderedDict name -> dom, output dom); raises IllTyped / Unsupported."""
    k = ir[0]
    if k == "var":
        return OrderedDict([(ir[1], ir[2])]), ir[2]
    if k == "num":
        return OrderedDict(), (ir[2], ())
    if k == "ten":
        _, data, names, dtype = ir
        if len(set(names)) != len(names) or len(names) > data.ndim:
            raise IllTyped("tensor names")
        sizes = data.shape[: len(names)]
        return OrderedDict((n, (int(s), ())) for n, s in zip(names, sizes)), (dtype, tuple(int(s) for s in data.shape[len(names):]))
    if k == "un":
        _, op, params, e = ir
        inp, out = typecheck(e)
        return inp, unary_output(op, params, out)
    if k == "bin":
        _, op, params, l, r = ir
        li, lo = typecheck(l)
        ri, ro = typecheck(r)
        return merge_inputs(li, ri), binary_output(op, params, lo, ro)
    if k == "red":
        _, op, e, vs = ir
        inp, out = typecheck(e)
        names = set()
        for n, d in vs:
            if n in inp and inp[n] != d:
                raise IllTyped("reduced variable domain mismatch")
            names.add(n)
        if op in ("add", "mul", "logaddexp", "sample") and out[0] != "real":
            # reductions of bounded ints: range grows with multiplicity
            raise Unsupported("reduce bounded-int output")
        return OrderedDict((n, d) for n, d in inp.items() if n not in names), out
    if k == "sub":
        _, e, subs = ir
        inp, out = typecheck(e)
        rest = OrderedDict(inp)
        vals = []
        seen = set()
        for name, v in subs:
            if name in seen:
                raise IllTyped("duplicate substitution key")
            seen.add(name)
            vi, vo = typecheck(v)
            if name not in inp:
                continue
            want = inp[name]
            if vo[1] != want[1]:
                raise IllTyped("substituted value shape %s for %s: %s" % (vo, name, want))
            if want[0] == "real":
                if vo[0] != "real":
                    raise IllTyped("substituted int for real")
            else:
                if vo[0] == "real":
                    raise IllTyped("substituted real for int")
                if v[0] == "num":
                    if not 0 <= v[1] < want[0]:
                        raise IllTyped("number out of range")
                elif vo[0] != want[0]:
                    raise IllTyped("substituted value has size %s for %s of size %s" % (vo[0], name, want[0]))
            del rest[name]
            vals.append(vi)
        return merge_inputs(rest, *vals), out
    if k == "stack":
        _, name, parts = ir
        ts = [typecheck(p) for p in parts]
        if not ts or len({t[1] for t in ts}) != 1:
            raise IllTyped("stack parts heterogeneous")
        inp = merge_inputs(*[t[0] for t in ts])
        if name in inp:
            raise IllTyped("stack name already an input")
        return merge_inputs(OrderedDict([(name, (len(parts), ()))]), inp), ts[0][1]
    if k == "cat":
        _, name, parts, part_name = ir
        ts = [typecheck(p) for p in parts]
        if not ts or len({t[1] for t in ts}) != 1:
            raise IllTyped("cat parts heterogeneous")
        if any(part_name not in t[0] or t[0][part_name][0] == "real" or t[0][part_name][1] != () for t in ts):
            raise IllTyped("cat part lacks the part name")
        total = sum(t[0][part_name][0] for t in ts)
        rest = merge_inputs(*[OrderedDict((n, d) for n, d in t[0].items() if n != part_name) for t in ts])
        if name in rest:
            raise IllTyped("cat name collides with another input")
        return merge_inputs(OrderedDict([(name, (total, ()))]), rest), ts[0][1]
    if k == "slice":
        _, name, start, stop, step, dtype = ir
        size = len(range(start, stop, step))
        if size <= 0 or step <= 0 or start < 0 or stop > dtype:
            raise IllTyped("slice bounds")
        return OrderedDict([(name, (size, ()))]), (dtype, ())
    if k == "lam":
        _, name, size, e = ir
        inp, out = typecheck(e)
        if name in inp and inp[name] != (size, ()):
            raise IllTyped("lambda variable domain mismatch")
        return OrderedDict((n, d) for n, d in inp.items() if n != name), (out[0], (size,) + out[1])
    if k == "indep":
        _, e, rv, bv, dv = ir
        inp, out = typecheck(e)
        if bv not in inp or dv not in inp or inp[bv][0] == "real" or inp[dv][0] != "real" or rv in inp and rv not in (dv,):
            raise IllTyped("independent variables")
        rest = OrderedDict((n, d) for n, d in inp.items() if n not in (bv, dv))
        if rv in rest:
            raise IllTyped("independent reals_var collides")
        rest[rv] = ("real", (inp[bv][0],) + inp[dv][1])
        return rest, out
    if k == "fin":
        _, op, params, es = ir
        ts = [typecheck(e) for e in es]
        inp = merge_inputs(*[t[0] for t in ts])
        p = dict(params)
        if op == "einsum":
            eq = p["equation"]
            ins, out = eq.split("->")
            ins = ins.split(",")
            if len(ins) != len(ts):
                raise IllTyped("einsum arity")
            sizes = {}
            for spec, (_, o) in zip(ins, ts):
                if o[0] != "real" or len(spec) != len(o[1]):
                    raise IllTyped("einsum operand")
                for c, s in zip(spec, o[1]):
                    if sizes.setdefault(c, s) != s:
                        raise IllTyped("einsum size")
            if any(c not in sizes for c in out) or len(set(out)) != len(out):
                raise IllTyped("einsum output")
            return inp, ("real", tuple(sizes[c] for c in out))
        if op == "stack":
            shape = bshape(*[t[1][1] for t in ts])
            if len({t[1][0] for t in ts}) != 1:
                raise IllTyped("stack dtype")
            dim = p["dim"]
            if not -len(shape) - 1 <= dim <= len(shape):
                raise IllTyped("stack dim")
            pos = dim if dim >= 0 else dim + len(shape) + 1
            return inp, (ts[0][1][0], shape[:pos] + (len(ts),) + shape[pos:])
        if op == "cat":
            shapes = [t[1][1] for t in ts]
            nd = len(shapes[0])
            axis = p["axis"]
            if any(len(s) != nd for s in shapes) or nd == 0 or not -nd <= axis < nd:
                raise IllTyped("cat shapes")
            ax = axis % nd
            for s in shapes:
                if s[:ax] + s[ax + 1:] != shapes[0][:ax] + shapes[0][ax + 1:]:
                    raise IllTyped("cat shapes differ")
            if len({t[1][0] for t in ts}) != 1:
                raise IllTyped("cat dtype")
            return inp, (ts[0][1][0], shapes[0][:ax] + (sum(s[ax] for s in shapes),) + shapes[0][ax + 1:])
        raise Unsupported("finitary " + op)
    if k == "contr":
        _, red, binop, vs, terms = ir
        ts = [typecheck(t) for t in terms]
        inp = merge_inputs(*[t[0] for t in ts])
        names = set()
        for n, d in vs:
            if n in inp and inp[n] != d:
                raise IllTyped("contraction variable domain mismatch")
            names.add(n)
        out = ts[0][1]
        for t in ts[1:]:
            out = binary_output(binop, (), out, t[1])
        return OrderedDict((n, d) for n, d in inp.items() if n not in names), out
    if k == "delta":
        inp = OrderedDict()
        for name, point, ld in ir[1]:
            pi, po = typecheck(point)
            li, lo = typecheck(ld)
            inp = merge_inputs(inp, pi, li)
        for name, point, ld in ir[1]:
            inp = merge_inputs(inp, OrderedDict([(name, typecheck(point)[1])]))
        return inp, REAL
    if k == "gauss":
        return OrderedDict(ir[3]), REAL
    if k == "integ":
        _, m, f, vs = ir
        mi, mo = typecheck(m)
        fi, fo = typecheck(f)
        names = {n for n, d in vs}
        inp = merge_inputs(mi, fi)
        return OrderedDict((n, d) for n, d in inp.items() if n not in names), fo
    if k == "align":
        inp, out = typecheck(ir[1])
        names = list(ir[2]) + [n for n in inp if n not in ir[2]]
        return OrderedDict((n, inp[n]) for n in names if n in inp), out
    if k == "const":
        inp, out = typecheck(ir[2])
        return merge_inputs(OrderedDict(ir[1]), inp), out
    if k == "tuple":
        ts = [typecheck(e) for e in ir[1]]
        return merge_inputs(*[t[0] for t in ts]), ("product", tuple(t[1] for t in ts))
    if k == "approx":
        return typecheck(ir[2])
    raise Unsupported("typecheck " + str(k))


def size_of(ir):
    """number of nodes"""
    if not isinstance(ir, tuple) or not ir or not isinstance(ir[0], str):
        return 0
    n = 1
    for c in ir[1:]:
        if isinstance(c, tuple):
            if c and isinstance(c[0], str) and c[0] in KINDS:
                n += size_of(c)
            else:
                for cc in c:
                    if isinstance(cc, tuple):
                        if cc and isinstance(cc[0], str) and cc[0] in KINDS:
                            n += size_of(cc)
                        else:
                            for ccc in cc:
                                if isinstance(ccc, tuple) and ccc and isinstance(ccc[0], str) and ccc[0] in KINDS:
                                    n += size_of(ccc)
    return n


KINDS = {"var", "num", "ten", "un", "bin", "red", "sub", "stack", "cat", "slice", "lam", "indep", "fin", "contr", "delta",
         "gauss", "integ", "align", "const", "tuple", "approx", "markov", "scatter", "opaque"}


def kinds_in(ir, acc=None):
    """multiset of constructor kinds (and op names) in an IR"""
    if acc is None:
        acc = []

    def walk(x):
        if isinstance(x, tuple):
            if x and isinstance(x[0], str) and x[0] in KINDS:
                tag = x[0]
                if tag in ("un", "bin", "red", "fin"):
                    tag = tag + ":" + str(x[1])
                elif tag == "contr":
                    tag = "contr:%s,%s" % (x[1], x[2])
                acc.append(tag)
                for c in x[1:]:
                    walk(c)
            else:
                for c in x:
                    walk(c)

    walk(ir)
    return acc


def show(ir, depth=0):
    """compact rendering"""
    k = ir[0]
    if k == "var":
        return "%s:%s" % (ir[1], _dom(ir[2]))
    if k == "num":
        return "%r" % (ir[1],)
    if k == "ten":
        d = ir[1]
        body = np.array2string(np.asarray(d), separator=",", threshold=12, precision=3).replace("\n", "") if d.size <= 12 else "..."
        return "T[%s|%s]%s%s" % (",".join("%s%d" % (n, s) for n, s in zip(ir[2], d.shape)), "x".join(map(str, d.shape[len(ir[2]):])), "" if ir[3] == "real" else ":b%s" % ir[3], body)
    if k == "un":
        p = ",".join("%s=%s" % kv for kv in ir[2])
        return "%s%s(%s)" % (ir[1], "{%s}" % p if p else "", show(ir[3]))
    if k == "bin":
        p = ",".join("%s=%s" % kv for kv in ir[2])
        return "%s%s(%s, %s)" % (ir[1], "{%s}" % p if p else "", show(ir[3]), show(ir[4]))
    if k == "red":
        return "reduce_%s[%s](%s)" % (ir[1], ",".join(n for n, d in ir[3]), show(ir[2]))
    if k == "sub":
        return "%s(%s)" % (show(ir[1]), ", ".join("%s=%s" % (n, show(v)) for n, v in ir[2]))
    if k == "stack":
        return "Stack[%s](%s)" % (ir[1], ", ".join(show(p) for p in ir[2]))
    if k == "cat":
        return "Cat[%s<-%s](%s)" % (ir[1], ir[3], ", ".join(show(p) for p in ir[2]))
    if k == "slice":
        return "Slice[%s](%d:%d:%d of %d)" % ir[1:]
    if k == "lam":
        return "Lambda[%s:%d](%s)" % (ir[1], ir[2], show(ir[3]))
    if k == "indep":
        return "Independent[%s<-%s,%s](%s)" % (ir[2], ir[3], ir[4], show(ir[1]))
    if k == "fin":
        return "%s{%s}(%s)" % (ir[1], ",".join("%s=%s" % kv for kv in ir[2]), ", ".join(show(e) for e in ir[3]))
    if k == "contr":
        return "Contraction[%s,%s;%s](%s)" % (ir[1], ir[2], ",".join(n for n, d in ir[3]), ", ".join(show(t) for t in ir[4]))
    if k == "delta":
        return "Delta(%s)" % ", ".join("%s@%s:%s" % (n, show(p), show(ld)) for n, p, ld in ir[1])
    if k == "gauss":
        return "Gaussian[%s; rank %d]" % (",".join("%s:%s" % (n, _dom(d)) for n, d in ir[3]), ir[1].shape[-1])
    if k == "integ":
        return "Integrate[%s](%s, %s)" % (",".join(n for n, d in ir[3]), show(ir[1]), show(ir[2]))
    if k == "align":
        return "Align[%s](%s)" % (",".join(ir[2]), show(ir[1]))
    if k == "const":
        return "Constant[%s](%s)" % (",".join(n for n, d in ir[1]), show(ir[2]))
    if k == "tuple":
        return "Tuple(%s)" % ", ".join(show(e) for e in ir[1])
    return "<%s>" % k


def _dom(d):
    if d[0] == "real":
        return "R%s" % (list(d[1]) if d[1] else "")
    return "b%d%s" % (d[0], list(d[1]) if d[1] else "")


# ---------------------------------------------------------------------------
# capture-avoiding renaming on the IR (used to produce shadowing-free variants of generated programs)


def rename_free(ir, m):
    """rename free input names of `ir` according to the dict m (assumes the new names are fresh)"""
    if not m:
        return ir
    k = ir[0]
    if k == "ten":
        return ("ten", ir[1], tuple(m.get(n, n) for n in ir[2]), ir[3])
    if k == "var":
        return ("var", m.get(ir[1], ir[1]), ir[2])
    if k == "num":
        return ir
    if k == "slice":
        return ("slice", m.get(ir[1], ir[1])) + tuple(ir[2:])
    if k == "un":
        return ("un", ir[1], ir[2], rename_free(ir[3], m))
    if k == "bin":
        return ("bin", ir[1], ir[2], rename_free(ir[3], m), rename_free(ir[4], m))
    if k == "red":
        bound = {n for n, d in ir[3]}
        return ("red", ir[1], rename_free(ir[2], {a: b for a, b in m.items() if a not in bound}), ir[3])
    if k == "sub":
        keys = {n for n, v in ir[2]}
        return ("sub", rename_free(ir[1], {a: b for a, b in m.items() if a not in keys}), tuple((n, rename_free(v, m)) for n, v in ir[2]))
    if k == "stack":
        return ("stack", m.get(ir[1], ir[1]), tuple(rename_free(p, m) for p in ir[2]))
    if k == "cat":
        inner = {a: b for a, b in m.items() if a != ir[3]}
        return ("cat", m.get(ir[1], ir[1]), tuple(rename_free(p, inner) for p in ir[2]), ir[3])
    if k == "lam":
        return ("lam", ir[1], ir[2], rename_free(ir[3], {a: b for a, b in m.items() if a != ir[1]}))
    if k == "fin":
        return ("fin", ir[1], ir[2], tuple(rename_free(e, m) for e in ir[3]))
    if k == "contr":
        bound = {n for n, d in ir[3]}
        inner = {a: b for a, b in m.items() if a not in bound}
        return ("contr", ir[1], ir[2], ir[3], tuple(rename_free(t, inner) for t in ir[4]))
    raise Unsupported("rename_free " + str(k))


def uniquify_binders(ir, counter=None):
    """alpha-rename every `red` binder to a globally unique name so that no name is bound twice or both bound and free"""
    if counter is None:
        counter = [0]
    k = ir[0]
    if k in ("ten", "var", "num", "slice"):
        return ir
    if k == "un":
        return ("un", ir[1], ir[2], uniquify_binders(ir[3], counter))
    if k == "bin":
        return ("bin", ir[1], ir[2], uniquify_binders(ir[3], counter), uniquify_binders(ir[4], counter))
    if k == "red":
        body = uniquify_binders(ir[2], counter)
        m = {}
        vs = []
        for n, d in ir[3]:
            counter[0] += 1
            new = "%s%dr" % (n.split("_")[0], counter[0])
            m[n] = new
            vs.append((new, d))
        return ("red", ir[1], rename_free(body, m), tuple(sorted(vs)))
    if k == "sub":
        return ("sub", uniquify_binders(ir[1], counter), tuple((n, uniquify_binders(v, counter)) for n, v in ir[2]))
    if k == "stack":
        return ("stack", ir[1], tuple(uniquify_binders(p, counter) for p in ir[2]))
    if k == "cat":
        return ("cat", ir[1], tuple(uniquify_binders(p, counter) for p in ir[2]), ir[3])
    if k == "fin":
        return ("fin", ir[1], ir[2], tuple(uniquify_binders(e, counter) for e in ir[3]))
    return ir


def bound_names(ir, acc=None):
    """list (with repetition) of names bound by red / lam / contr / integ nodes"""
    if acc is None:
        acc = []
    if isinstance(ir, tuple) and ir and isinstance(ir[0], str) and ir[0] in KINDS:
        if ir[0] in ("red", "contr", "integ"):
            acc.extend(n for n, d in ir[3])
        elif ir[0] == "lam":
            acc.append(ir[1])
        if ir[0] != "ten":
            for c in ir[1:]:
                bound_names(c, acc)
    elif isinstance(ir, tuple):
        for c in ir:
            bound_names(c, acc)
    return acc
