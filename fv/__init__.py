"""fv: runtime-monitoring harness for the 20 funsor properties (see /verif/DESIGN.md)."""
