"""Culprit localisation (DESIGN §4): re-run a failing computation under the dispatch monitor and find the innermost
firing whose own check fails; also reports whether a semiring rewrite was applied outside its carrier."""
import numpy as np

from .dispatchmon import check_firing, describe_firing, get_monitor, innermost_culprits


def bound_name_occurrences(ir, acc=None):
    """multiset of names bound at binder nodes of an IR (by occurrence)"""
    import collections

    if acc is None:
        acc = collections.Counter()
    if isinstance(ir, tuple) and ir and isinstance(ir[0], str):
        k = ir[0]
        if k == "red":
            acc.update(n for n, d in ir[3])
        elif k == "contr":
            acc.update(n for n, d in ir[3])
        elif k == "integ":
            acc.update(n for n, d in ir[3])
        elif k == "lam":
            acc[ir[1]] += 1
        elif k == "cat":
            acc[ir[3]] += 1
        elif k == "indep":
            acc[ir[3]] += 1
            acc[ir[4]] += 1
        elif k == "ten":
            return acc
        for c in ir[1:]:
            bound_name_occurrences(c, acc)
    elif isinstance(ir, tuple):
        for c in ir:
            bound_name_occurrences(c, acc)
    return acc


def firing_tags(f):
    """mechanism predicates over a firing's arguments (used to key known findings narrowly)"""
    from .lift import lift_call

    tags = []
    try:
        import numpy as _np

        op = f.args[0] if f.args else None
        datas = [getattr(a, "data", None) for a in f.args[1:3]]
        if getattr(op, "name", None) == "add" and len(datas) == 2 and all(isinstance(d, _np.ndarray) and d.dtype == bool for d in datas):
            tags.append("bool-add")
    except Exception:
        pass
    try:
        # removing a real-typed unit (x * 1.0 -> x) from a product/sum whose other terms are all integer-typed changes the declared dtype
        from funsor.cnf import Contraction
        from funsor.terms import Number
        from funsor.typing import get_origin

        if get_origin(f.cls) is Contraction and f.result is not None:
            terms = f.args[3] if len(f.args) == 4 and isinstance(f.args[3], tuple) else f.args[3:]
            units = [t for t in terms if isinstance(t, Number) and t.dtype == "real"]
            others = [t for t in terms if not any(t is u for u in units)]
            if units and others and all(getattr(t.output, "dtype", "real") != "real" for t in others) and getattr(f.result.output, "dtype", "real") != "real":
                tags.append("real-unit-removed-from-int-terms")
    except Exception:
        pass
    try:
        lhs = lift_call(f.cls, f.args)
        occ = bound_name_occurrences(lhs)
        if any(c > 1 and "__BOUND" in n for n, c in occ.items()):
            tags.append("dup-binder")
    except Exception:
        pass
    return tags


class Triage:
    def __init__(self):
        self.culprits = []       # rule names (innermost failing firings), in firing order, de-duplicated
        self.descriptions = []
        self.out_of_carrier = False
        self.firings = 0
        self.raised = None

    @property
    def key(self):
        return self.culprits[0] if self.culprits else "no-culprit"


def localise(run_fn, rng=None, max_firings=3000):
    mon = get_monitor()
    t = Triage()
    mon.start()
    try:
        with np.errstate(all="ignore"):
            run_fn()
    except Exception as e:
        t.raised = "%s: %s" % (type(e).__name__, str(e)[:200])
    fs = mon.stop()
    t.firings = len(fs)
    verdicts = {}
    # deterministic budget: firings are decided in passes of growing per-firing cost caps (reference work per point, see eval_cost);
    # the culprit is the innermost failing firing and is usually small, so later passes only run while no failing firing is known
    from .dispatchmon import FiringVerdict

    pending = list(fs[:max_firings])
    for cap in (1500, 15000, 150000):
        nxt = []
        for f in pending:
            try:
                v = check_firing(f, rng, max_cost=cap)
            except Exception as e:  # the localiser must never crash the check
                v = FiringVerdict("undecided", "checker-error", "%s: %s" % (type(e).__name__, e))
            verdicts[f.index] = v
            if v.status == "undecided" and v.kind == "too-costly":
                nxt.append(f)
            if v.status == "out-of-carrier":
                t.out_of_carrier = True
        pending = nxt
        if not pending or any(v.status == "bad" for v in verdicts.values()):
            break
    for i in innermost_culprits(fs, verdicts):
        name = fs[i].rule
        if name == "funsor.terms.SubstituteInterpretation.interpret":
            from funsor.typing import get_origin

            name = "%s.eager_subs" % get_origin(fs[i].cls).__name__
        tags = firing_tags(fs[i])
        if tags:
            name = name + "+" + "+".join(tags)
        if name not in t.culprits:
            t.culprits.append(name)
            t.descriptions.append("%s -- %s" % (describe_firing(fs[i], 400), verdicts[i].detail))
    return t
