#!/bin/bash
# usage: tools/recheck_seed.sh <seed-dir> [tier] [ids...]  -- run checks (default: the seed's own property) against the seeded change in the
# scratch worktree ${TRY_WT:-/tmp/wt/TRY}; writes <seed-dir>/checks.txt (confirmation lines stay in result.txt)
D="$(readlink -f "$1")"; TIER="${2:-quick}"; shift 2
IDS="$@"; [ -z "$IDS" ] && IDS="$(basename $D | cut -d- -f1)"
cd "$(dirname "$0")/.."
{ echo "## $(basename $D) $(date -u +%Y-%m-%dT%H:%M:%S) tier=$TIER verif=$(git rev-parse --short HEAD) repo=$(git -C ${TRY_WT:-/tmp/wt/TRY} rev-parse --short HEAD)"
  tools/try_seed.sh "$D/patch.diff" $TIER $IDS; } > "$D/checks.txt" 2>&1
echo "$(basename $D): $(grep 'rc=' "$D/checks.txt" | tr '\n' ';' | cut -c1-400)"
