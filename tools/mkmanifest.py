#!/usr/bin/env python3
"""Regenerates MANIFEST.json from the table below and validates it against the schema."""
import json, os, sys
HERE = os.path.dirname(os.path.dirname(os.path.abspath(__file__)))
BASELINE = json.load(open("/root/.vp/BASELINE.json"))["cmd"] if os.path.exists("/root/.vp/BASELINE.json") else "cd /repo && /venv/bin/python -m pytest -ra -q -p no:cacheprovider --timeout=900 --continue-on-collection-errors"

CHECKS = {
    "C01": ("reference-model monitor: pointwise reference evaluator vs eager result at every point; dispatch-monitor culprit localisation",
            "Typed random programs plus an enumerated depth-1 catalogue are built under the default interpretation and compared with an independent pointwise evaluator on their whole integer input space; core-fragment programs must complete to tensors. Exploration: held on the programs generated.",
            "trusted: fv/refsem.py, fv/ir.py typing rules, numpy; reals compared at rtol 1e-6; max/min-with-mul programs only counted when no semiring rewrite ran outside its carrier", "DESIGN.md §6 C01"),
    "C17": ("explicit stack model checked after every enter/exit step; exception injected at every level and caught at every outer level; push/pop event log on interpreter._STACK",
            "All well-nested chains of the 9 context kinds up to the depth bound are executed in three entry styles with an exception raised at every level and handled at every outer level; after each step the active interpretation and the class of fresh probe terms must match the model. Fault enumeration over the stated bounded space.",
            "trusted: the probe-class table per interpretation; exhaustive to depth 3 (quick) / 4 (thorough), sampled one level deeper", "DESIGN.md §6 C17"),
    # id: (technique, level text, level note, design ref)
    "C18": ("differential monitor: compiled program, exec of printed code, pickled program and traced function vs funsor substitution vs reference evaluator; input-validation monitor",
            "Expressions of the compiler fragment (depth<=5, shared sub-DAGs, non-commutative ops, constants, real and integer inputs, Tuple roots) are compiled from eager- and reflect-built terms and run on three random bindings each through every execution path; missing and unexpected inputs must raise ValueError. Exploration.",
            "trusted: fv/refsem.py; printed array constants are a recorded known finding", "DESIGN.md §6 C18"),
    "C19": ("round-trip and pointwise oracle on arange-filled arrays over enumerated shapes/namings; value-at-every-point oracle for align/materialize",
            "Every array shape within the bound, event rank, naming of batch dims and dtype is converted to a funsor and back and indexed at every named point; every permutation of inputs is aligned for tensors, lazy terms, contractions, Gaussians and Deltas. Exploration, exhaustive over the stated bounded space in the thorough tier.",
            "trusted: numpy indexing; fv/refsem.py for lazy terms", "DESIGN.md §6 C19"),
    "C02": ("dispatch monitor (run-time wrapper on every DispatchedInterpretation.dispatch and SubstituteInterpretation.interpret) + offline reference check of each firing; innermost-culprit reporting; rule coverage accounting",
            "While all engines run, every rule application of eager, normalize, lazy, sequential, unfold, optimize (and exact moment_matching/compress_gaussians steps, and per-class eager_subs steps) is recorded and the rule's result is compared with the term it replaces on the whole joint integer input space; evidence lists which registered rule functions fired with a non-identity rewrite, which only returned None and which never fired. Exploration.",
            "trusted: fv/lift.py, fv/refsem.py; firings over real integrals are undecided; out-of-carrier firings skipped; inexact (moment matching of mixtures) steps and the firings containing them are not judged", "DESIGN.md §6 C02"),
    "C03": ("differential monitor: every deferred/alternative interpretation route vs direct eager vs reference evaluator; memo-cache shadow map on every hit; identity checks; per-config subprocesses",
            "Each generated program is built directly and through every route (lazy/reflect/normalize/memoize then the three reinterpreters, sequential, moment_matching, random nestings of context managers) in processes started with FUNSOR_USE_TCO x FUNSOR_TYPECHECK; every completed route must agree with the reference on the whole input space and keep the output domain; repeated memoized builds must be identical objects and every memo hit must match its stored request. Exploration.",
            "trusted: fv/refsem.py; hashable arguments are considered equal when == (Number(2) and Number(2.0))", "DESIGN.md §6 C03"),
    "C04": ("reference-model monitor: simultaneous capture-free Sub semantics vs f(**subs) under eager/lazy/reflect (+reinterpret); culprit localisation by dispatch monitor",
            "A catalogue of subjects is crossed with systematic value classes for each input (all singles, pair products, triple products/samples, foreign keys, chained calls); each result is compared with the reference substitution semantics on the whole integer input space, and lazily built substitutions must declare exactly the predicted inputs. Exploration.",
            "trusted: fv/refsem.py, fv/ir.py; ill-typed maps are discarded; declines (NotImplementedError/assertions) are counted, not violations", "DESIGN.md §6 C04"),
    "C05": ("reference-model monitor with explicit lexical scoping; exhaustive name assignments on binder templates; bound-name leak invariant on every built term",
            "Binder templates are instantiated with every assignment of their name slots to a pool of three equal-sized names (so binders, free variables and substituted values coincide adversarially), plus random binder-heavy programs over that pool; every exact route must keep bound names out of the inputs and agree with the capture-free reference at every point. Exploration.",
            "trusted: fv/refsem.py lexical scoping; reserved '__BOUND' names are never generated", "DESIGN.md §6 C05"),
    "C07": ("shadow identity model over construct/drop/gc/pickle/reinterpret/re-allocate histories; weakref liveness; intern-table size invariant at quiescent points",
            "Histories over term, domain, op and type recipes (including near-miss recipes that differ in one constructor argument and recipes sharing backing arrays) are executed exhaustively to a small length and randomly to length 300; after every action the identity relation among live handles must equal the model's, dropped terms must die, and the intern tables must return to their baseline size. Exploration.",
            "trusted: the structural keys of the recipes; CPython refcounting + gc.collect()", "DESIGN.md §6 C07"),
    "C08": ("reference-model monitor over four rewriting routes (naive eager, normalize, unfold, apply_optimizer) + identity check of normal forms + brute-force einsum oracle",
            "Sum-product programs are generated inside the carrier of each of the seven semirings, with operands that do or do not mention each reduced variable and optional free real parameters; every route that completes must equal the reference value on the whole input space; normalising twice must return the identical object; enumerated einsum equations are compared with brute force for the three numpy backends. Exploration.",
            "trusted: fv/refsem.py; carrier-restricted generators", "DESIGN.md §6 C08"),
    "C09": ("brute-force unrolled joint table as reference model for every public plated sum-product entry point; error-behaviour monitor for pedantic mode",
            "Random and exhaustively enumerated tiny plated factor graphs are eliminated through sum_product, one- and two-call partial_sum_product, the modified/dynamic variants with empty Markov steps, plated einsum, pedantic mode and integer plate scales, and compared at every kept point with the table obtained by replicating variables per plate index. Exploration.",
            "trusted: the unrolling oracle in fv/checks/c09.py; two-call splits restricted to those that denote the same unrolled model; kept plates are not listed in plate_to_step", "DESIGN.md §6 C09"),
    "C10": ("explicit left-to-right semiring fold (numpy) as reference model for every Markov-product entry point; brute-force unrolling and naive counterpart for lagged models",
            "Random transitions over all durations 1..12, state pairs, batch inputs, input orders and semirings are run through sequential/naive/mixed (every num_segments) products, MarkovProduct eager, lazy+reinterpret and renamed, with optional real parameter; lagged models through sarkka_bilmes_product with several period counts, against the naive variant and an unrolled fold. Exploration.",
            "trusted: numpy/scipy semiring fold in fv/checks/c10.py", "DESIGN.md §6 C10"),
    "C11": ("product-rule derivative on the IR as reference for every leaf adjoint; forward value vs reference evaluator; mechanism model of the tape's aggregation to key known findings",
            "Sum-product programs with 1-5 leaves (renamed, sliced, concatenated, index-substituted, used twice) are built under reflect and differentiated by forward_backward directly and after apply_optimizer, for (add,mul) and (logaddexp,add); the forward value must equal the reference and, for fully reduced roots, every leaf's adjoint must equal the brute-force semiring derivative at every index. Exploration.",
            "trusted: fv/refsem.py and the derivative recursion in fv/checks/c11.py; roots with free inputs only contribute the forward check (the statement does not fix which root inputs index the adjoint)", "DESIGN.md §6 C11"),
    "C12": ("dense quadratic-form reference model composed through closures; structural read-out and funsor binding of results at random points",
            "Gaussians of every parametrisation, rank class and input interleaving are pushed through random compositions (depth<=3) of the supported pointwise operations and compared with -1/2 x'Px + x'eta + c computed from the generator's parameters. Exploration.",
            "trusted: fv/dense.py, numpy.linalg; rtol 1e-5 on well-conditioned factors", "DESIGN.md §6 C12"),
    "C13": ("closed-form Schur-complement / moment oracle on the dense form; completion and error-behaviour monitor",
            "Full-rank Gaussians in every input interleaving are marginalised over every subset of real inputs (one step, two steps in both orders, before/after evaluation), normalised, plate-summed, mixture-reduced, integrated against variables and Gaussians and moment-matched; results must complete and equal the closed forms; rank-deficient blocks must raise. Exploration.",
            "trusted: fv/dense.py closed forms, numpy.linalg, scipy logsumexp", "DESIGN.md §6 C13"),
    "C14": ("pointwise Delta reference; exact mass-conservation identity per batch element and particle; support/range monitor; re-seeding reproducibility; affine-in-noise probe with dense mean/covariance",
            "Deltas are evaluated at equal/unequal points and reduced/integrated against funsors; discrete tensors (with -inf entries) and full-rank Gaussians are sampled over every kind of variable subset and sample-input layout; the sample's mass must equal the original's for every batch element and particle, points must lie in the support, re-seeding must reproduce them and reparametrised Gaussian samples must be affine in the noise with the dense mean and covariance. Exploration.",
            "trusted: numpy/scipy, fv/dense.py; numpy global RNG is the only random state of the numpy backend", "DESIGN.md §6 C14"),
    "C15": ("runtime oracle over op-table axioms on edge grids; scalar/0-d/array differential; NaN monitor on safe ops",
            "Every published table entry and every catalogue op is executed on an edge-value grid crossed with random values, shapes and operand orders; numpy/math/scipy arithmetic is the independent oracle. Exploration: held on the grid that was run, nothing beyond.",
            "trusted: numpy/scipy/math arithmetic; carriers as stated in the property (non-negative for max/min with mul, booleans for and/or)", "DESIGN.md §6 C15"),
}
LEVELS = {"C17": "fault_enumeration"}
CHECKS["C06"] = ("type monitor on reflect.interpret (one-step typing check of every constructed term against independent rules; Tensor data shape/dtype/range invariant) + lazy-vs-eager declaration differential + find_domain catalogue vs numpy with exhaustive bounded-integer images",
            "Every term built while all engines run is checked against the typing rule applied to its children's declared types, every Tensor against its declaration; generated programs are built lazily and eagerly and their declarations compared; every op of the catalogue is applied to arrays of every operand domain/parameter combination in range and compared with the statically declared domain. Exploration.",
            "trusted: fv/ir.py typing rules, numpy; ops are exercised on their carriers only (real-valued ops on reals, and/or/xor/invert on booleans)", "DESIGN.md §6 C06")
CHECKS["C16"] = ("dispatch observation hook on PartialDispatcher.partial_call + offline recomputation of the matching set and specificity order with an independent matcher; cache-clearing and shuffled-registration determinism probes; order axioms and membership oracle on a type pool",
            "Every (dispatcher, argument types) pair used while the engines run is re-examined: the chosen rule's pattern must be at least as specific as every matching pattern, and the same rule must be chosen with an empty cache and by dispatchers rebuilt in shuffled registration orders; reflexivity, transitivity and soundness of the subtype relation and agreement of deep_isinstance with a textbook membership predicate are checked on a pool of parametric types and sampled values. Exploration.",
            "trusted: plain-class issubclass/isinstance; the independent matcher in fv/checks/c16.py builds on deep_issubclass, whose axioms are checked separately", "DESIGN.md §6 C16")
CHECKS["C20"] = ("mutation monitor: write-protected leaf arrays (write attempts raise at the write site) + content snapshots of every array, every funsor passed to any rule and every result, re-verified after each program and at the end of the run",
            "All engines are run with every user-supplied array read-only and hashed; the dispatch monitor snapshots each funsor the first time it is handed to a rule; after each program and at the end of the shard every snapshot must still match. Exploration.",
            "trusted: numpy write protection, sha1 content hashes; memoised attributes are not considered part of a term's value", "DESIGN.md §6 C20")
ALL = ["C%02d" % i for i in range(1, 21)]
NOT_YET = {}

def main():
    checks = []
    for cid in ALL:
        if cid not in CHECKS:
            continue
        tech, text, note, ref = CHECKS[cid]
        checks.append({
            "property_id": cid,
            "quick_cmd": "./check %s --tier quick" % cid,
            "thorough_cmd": "./check %s --tier thorough" % cid,
            "evidence_file": "/verif/evidence/%s.json" % cid,
            "replay_cmd_template": "./check --replay {path}",
            "engine": "fv",
            "level_claimed": {"category": LEVELS.get(cid, "exploration"), "text": text, "design_ref": ref},
            "level_note": note,
            "technique": tech,
        })
    man = {
        "version": 1,
        "setup_cmd": "/venv/bin/python -m fv.selfcheck",
        "hooks": {
            "guard": "FUNSOR_VERIF",
            "enable": "no source hooks: the harness monkey-patches funsor at run time inside worker processes started with FUNSOR_VERIF=1 (instance attribute `dispatch`, reflect.interpret, interpreter._STACK, Memoize.interpret); funsor is imported from /repo's working tree, nothing to build",
            "baseline_off_cmd": BASELINE,
            "source_commits": [],
            "add_only": True,
        },
        "engines": [{"name": "fv", "path": "/verif/fv", "serves_properties": sorted(CHECKS), "kind_free_text": "python runtime-monitoring harness: generators, reference evaluator, run-time monitors, sharded runner"}],
        "checks": checks,
        "notes": "Runtime monitoring only (reference-model monitors, invariant hooks, differential oracles). Known findings: /verif/known_findings.txt. See DESIGN.md.",
        "not_applicable": [{"property_id": c, "reason": NOT_YET.get(c, "check not implemented yet in this commit (work in progress; runtime monitoring does apply, see DESIGN.md §6)")} for c in ALL if c not in CHECKS],
    }
    json.dump(man, open(os.path.join(HERE, "MANIFEST.json"), "w"), indent=1)
    try:
        import jsonschema
        jsonschema.validate(man, json.load(open("/root/.vp/MANIFEST.schema.json")))
        print("MANIFEST.json valid; claimed:", sorted(CHECKS))
    except ImportError:
        print("jsonschema not available; written without validation")

if __name__ == "__main__":
    main()
