#!/bin/bash
# usage: tools/sweep.sh <tier> "<seeds>" [ids...]   -- runs checks sequentially, prints one status line per run (no evidence written)
TIER="${1:-quick}"; SEEDS="${2:-0}"; shift 2
IDS="$@"; [ -z "$IDS" ] && IDS="C01 C02 C03 C04 C05 C06 C07 C08 C09 C10 C11 C12 C13 C14 C15 C16 C17 C18 C19 C20"
cd "$(dirname "$0")/.."
for s in $SEEDS; do for id in $IDS; do
  out=$(VERIF_SEED=$s ./check $id --tier $TIER --no-evidence 2>&1); rc=$?
  echo "== $id tier=$TIER seed=$s rc=$rc :: $(echo "$out" | head -1)"
  if [ $rc -ne 0 ]; then echo "$out" | grep -v "^KNOWN" | head -12 | cut -c1-600; fi
done; done
