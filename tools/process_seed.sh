#!/bin/bash
# usage: tools/process_seed.sh <seed-dir> [tier] [ids...]   -- confirm (demo + test-suite in /tmp/wt/CONFIRM) then run checks against /tmp/wt/TRY
D="$(readlink -f "$1")"; TIER="${2:-quick}"; shift 2
cd "$(dirname "$0")/.."
{
echo "## $(basename $D) $(date -u +%H:%M:%S) tier=$TIER checks=${@:-all}"
tools/confirm_seed.sh "$D" /tmp/wt/CONFIRM
tools/try_seed.sh "$D/patch.diff" $TIER "$@"
} > "$D/result.txt" 2>&1
echo "$(basename $D): $(grep -E '^demo:|^baseline|rc=' "$D/result.txt" | tr '\n' ';' | cut -c1-700)"
