#!/usr/bin/env python3
"""Mechanical source mutants of funsor, used to measure the checks (never committed to /repo).

usage: tools/mutants.py list  [--per-file N] [--seed S]            -> prints the mutant table
       tools/mutants.py run   <worktree> <out.jsonl> [--per-file N] [--seed S] [--only i,j,...]
Each mutant is one AST-level edit (comparison flipped, +/- swapped, and/or swapped, 0<->1 / -1<->-2 constants, `not` dropped,
`reversed(x)` -> x, set operator & <-> |) at a site drawn deterministically from the executable code of one module. For each mutant the
module is rewritten in the scratch worktree, the quick checks mapped to that module run with FV_REPO=<worktree>, and the file is restored.
"""
import ast
import json
import os
import random
import subprocess
import sys

suite_first = False
VERIF = os.path.dirname(os.path.dirname(os.path.abspath(__file__)))

FILES = {
    "funsor/tensor.py": ["C01", "C19", "C14"],
    "funsor/terms.py": ["C01", "C04", "C05"],
    "funsor/cnf.py": ["C08", "C02", "C01"],
    "funsor/sum_product.py": ["C09", "C10"],
    "funsor/gaussian.py": ["C12", "C13", "C14"],
    "funsor/adjoint.py": ["C11"],
    "funsor/domains.py": ["C06", "C07", "C01"],
    "funsor/interpreter.py": ["C17", "C03"],
    "funsor/interpretations.py": ["C17", "C03"],
    "funsor/optimizer.py": ["C08", "C05"],
    "funsor/delta.py": ["C14", "C02"],
    "funsor/integrate.py": ["C13", "C14"],
    "funsor/typing.py": ["C16"],
    "funsor/registry.py": ["C16"],
    "funsor/ops/op.py": ["C07", "C15", "C16"],
    "funsor/ops/builtin.py": ["C15", "C06"],
    "funsor/ops/array.py": ["C15", "C06", "C01"],
    "funsor/compiler.py": ["C18"],
    "funsor/ops/program.py": ["C18"],
    "funsor/ops/tracer.py": ["C18"],
    "funsor/einsum/__init__.py": ["C09", "C08"],
    "funsor/einsum/numpy_log.py": ["C15", "C08"],
    "funsor/joint.py": ["C12", "C13", "C14"],
    "funsor/affine.py": ["C12", "C04"],
}

CMP = {ast.Lt: ast.LtE, ast.LtE: ast.Lt, ast.Gt: ast.GtE, ast.GtE: ast.Gt, ast.Eq: ast.NotEq, ast.NotEq: ast.Eq,
       ast.In: ast.NotIn, ast.NotIn: ast.In, ast.Is: ast.IsNot, ast.IsNot: ast.Is}
BIN = {ast.Add: ast.Sub, ast.Sub: ast.Add, ast.BitAnd: ast.BitOr, ast.BitOr: ast.BitAnd}


class Sites(ast.NodeVisitor):
    """collects (kind, node) candidate sites, skipping asserts, raises, docstrings, decorators and __repr__/__str__"""

    def __init__(self):
        self.sites = []
        self.skip = 0

    def visit_Assert(self, node):
        pass

    def visit_Raise(self, node):
        pass

    def visit_FunctionDef(self, node):
        if node.name in ("__repr__", "__str__", "_pretty", "__reduce__"):
            return
        for n in node.body:
            self.visit(n)

    visit_AsyncFunctionDef = visit_FunctionDef

    def visit_Compare(self, node):
        if len(node.ops) == 1 and type(node.ops[0]) in CMP:
            self.sites.append(("cmp", node))
        self.generic_visit(node)

    def visit_BinOp(self, node):
        if type(node.op) in BIN and not isinstance(node.left, ast.Constant) or (type(node.op) in BIN and not isinstance(getattr(node.left, "value", None), str)):
            if not (isinstance(node.left, ast.Constant) and isinstance(node.left.value, str)) and not isinstance(node.left, ast.JoinedStr):
                self.sites.append(("bin", node))
        self.generic_visit(node)

    def visit_BoolOp(self, node):
        self.sites.append(("bool", node))
        self.generic_visit(node)

    def visit_UnaryOp(self, node):
        if isinstance(node.op, ast.Not):
            self.sites.append(("not", node))
        self.generic_visit(node)

    def visit_Constant(self, node):
        if type(node.value) is int and node.value in (0, 1, 2):
            self.sites.append(("const", node))

    def visit_Call(self, node):
        if isinstance(node.func, ast.Name) and node.func.id == "reversed" and len(node.args) == 1:
            self.sites.append(("reversed", node))
        self.generic_visit(node)

    def visit_Expr(self, node):
        if isinstance(node.value, ast.Constant) and isinstance(node.value.value, str):
            return  # docstring
        self.generic_visit(node)


def mutate(tree, index):
    """apply the index-th site's mutation in place; returns description"""
    s = Sites()
    s.visit(tree)
    kind, node = s.sites[index]
    line = node.lineno
    if kind == "cmp":
        old = type(node.ops[0]).__name__
        node.ops[0] = CMP[type(node.ops[0])]()
        return "line %d: compare %s -> %s" % (line, old, type(node.ops[0]).__name__)
    if kind == "bin":
        old = type(node.op).__name__
        node.op = BIN[type(node.op)]()
        return "line %d: binop %s -> %s" % (line, old, type(node.op).__name__)
    if kind == "bool":
        old = type(node.op).__name__
        node.op = ast.Or() if isinstance(node.op, ast.And) else ast.And()
        return "line %d: %s -> %s" % (line, old, type(node.op).__name__)
    if kind == "not":
        node.op = ast.UAdd()  # `not x` -> `+x` is wrong for non-numbers; replace the node's operand instead
        # emulate dropping `not`: wrap as bool(x)
        new = ast.Call(func=ast.Name(id="bool", ctx=ast.Load()), args=[node.operand], keywords=[])
        node.op = ast.Not()
        node.operand = ast.UnaryOp(op=ast.Not(), operand=new)
        return "line %d: `not` dropped" % line
    if kind == "const":
        old = node.value
        node.value = {0: 1, 1: 0, 2: 1}[old]
        return "line %d: constant %d -> %d" % (line, old, node.value)
    if kind == "reversed":
        node.func = ast.Name(id="list", ctx=ast.Load())
        return "line %d: reversed(x) -> list(x)" % line
    raise ValueError(kind)


def plan(repo, per_file, seed):
    out = []
    for path in FILES:
        full = os.path.join(repo, path)
        if not os.path.exists(full):
            continue
        tree = ast.parse(open(full).read())
        s = Sites()
        s.visit(tree)
        n = len(s.sites)
        rng = random.Random("%s:%s" % (seed, path))
        idx = sorted(rng.sample(range(n), min(per_file, n)))
        for i in idx:
            out.append((path, i))
    return out


def suite_missing(wt, rec):
    import re

    try:
        p = subprocess.run([os.path.join(VERIF, "tools", "baseline.sh"), wt], capture_output=True, text=True, timeout=3000)
        m = re.search(r"missing_from_baseline=(\d+)", p.stdout)
        rec["suite_missing"] = int(m.group(1)) if m else -1
    except subprocess.TimeoutExpired:
        rec["suite_missing"] = -2
    return rec["suite_missing"]


def main():
    args = sys.argv[1:]
    global suite_first
    suite_first = "--suite-first" in args
    if suite_first:
        args.remove("--suite-first")
    per_file, seed, only = 6, 0, None
    for flag in ("--per-file", "--seed", "--only"):
        if flag in args:
            k = args.index(flag)
            val = args[k + 1]
            del args[k:k + 2]
            if flag == "--per-file":
                per_file = int(val)
            elif flag == "--seed":
                seed = int(val)
            else:
                only = set(int(x) for x in val.split(","))
    if args[0] == "list":
        repo = args[1] if len(args) > 1 else "/repo"
        for n, (path, i) in enumerate(plan(repo, per_file, seed)):
            tree = ast.parse(open(os.path.join(repo, path)).read())
            print(n, path, mutate(tree, i))
        return
    wt, outp = args[1], args[2]
    todo = plan(wt, per_file, seed)
    with open(outp, "a") as log:
        for n, (path, i) in enumerate(todo):
            if only is not None and n not in only:
                continue
            full = os.path.join(wt, path)
            src = open(full).read()
            tree = ast.parse(src)
            desc = mutate(tree, i)
            rec = {"n": n, "file": path, "mutation": desc, "checks": {}}
            try:
                open(full, "w").write(ast.unparse(tree) + "\n")
                imp = subprocess.run(["/venv/bin/python", "-c", "import funsor, funsor.sum_product, funsor.adjoint, funsor.compiler, funsor.einsum, funsor.joint, funsor.integrate, funsor.optimizer"],
                                     env=dict(os.environ, PYTHONPATH=wt, FUNSOR_BACKEND="numpy"), capture_output=True, text=True, timeout=300)
                if imp.returncode != 0:
                    rec["import"] = "fails"
                elif suite_first and suite_missing(wt, rec) != 0:
                    pass  # the repository's own tests notice this mutant: outside the class the checks are meant for
                else:
                    for cid in FILES[path]:
                        env = dict(os.environ, FV_REPO=wt, PYTHONPATH=wt)
                        try:
                            p = subprocess.run([os.path.join(VERIF, "check"), cid, "--tier", "quick", "--no-evidence"], env=env, capture_output=True, text=True, timeout=1800)
                        except subprocess.TimeoutExpired:
                            rec["checks"][cid] = {"rc": 2, "keys": [], "inconclusive": ["campaign timeout"]}
                            continue
                        keys = sorted(set(l.split("key=")[1].split(":")[0] + ":" + l.split("key=")[1].split(":")[1].split(" ")[0] if l.count(":") > 1 else l for l in p.stdout.splitlines() if l.startswith("  key=")))[:3]
                        rec["checks"][cid] = {"rc": p.returncode, "keys": keys, "inconclusive": [l[:160] for l in p.stdout.splitlines() if l.startswith("INCONCLUSIVE")][:2]}
                        if p.returncode == 1:
                            break  # killed
            finally:
                open(full, "w").write(src)
            log.write(json.dumps(rec) + "\n")
            log.flush()


if __name__ == "__main__":
    main()
