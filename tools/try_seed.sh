#!/bin/bash
# usage: tools/try_seed.sh <patch.diff> [tier] [ids...]
# Applies a seeded change to a scratch worktree of /repo (default /tmp/wt/TRY, override with TRY_WT; TRY_WT=/repo applies to /repo itself),
# runs the checks against it (no evidence written), and reverts.
PATCH="$(readlink -f "$1")"; TIER="${2:-quick}"; shift 2
IDS="$@"; [ -z "$IDS" ] && IDS="C01 C02 C03 C04 C05 C06 C07 C08 C09 C10 C11 C12 C13 C14 C15 C16 C17 C18 C19 C20"
WT="${TRY_WT:-/tmp/wt/TRY}"
cd "$(dirname "$0")/.."
if [ -n "$(git -C "$WT" status --porcelain)" ]; then echo "$WT not clean"; exit 2; fi
git -C "$WT" apply "$PATCH" || { echo "patch does not apply"; exit 2; }
trap 'git -C "$WT" checkout -- . ; git -C "$WT" clean -fdq funsor 2>/dev/null' EXIT
for id in $IDS; do
  out=$(FV_REPO="$WT" PYTHONPATH="$WT" ./check $id --tier $TIER --no-evidence 2>&1); rc=$?
  keys=$(echo "$out" | grep "^  key=" | sed 's/^  key=\([^ ]*\).*/\1/' | sort -u | head -4 | tr '\n' ' ')
  echo "$id rc=$rc ${keys}"
done
