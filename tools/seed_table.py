#!/usr/bin/env python3
"""prints the markdown table of DESIGN.md 11.6 from seeded/*/{meta.json,result.txt,checks.txt}"""
import glob, json, os, re

rows = []
for d in sorted(glob.glob(os.path.join(os.path.dirname(__file__), "..", "seeded", "C*-*"))):
    sid = os.path.basename(d)
    meta = json.load(open(os.path.join(d, "meta.json")))
    patch = open(os.path.join(d, "patch.diff")).read()
    files = sorted(set(re.findall(r"^\+\+\+ b/(\S+)", patch, re.M)))
    funcs = sorted(set(m.strip() for m in re.findall(r"^@@.*@@ (?:def |class )?(\w+)", patch, re.M)))
    confirm = ""
    res = os.path.join(d, "result.txt")
    if os.path.exists(res):
        t = open(res).read()
        m = re.search(r"demo: clean rc=(\d+) patched rc=(\d+)", t)
        b = re.search(r"missing_from_baseline=(\d+)", t)
        confirm = "demo %s/%s, suite missing=%s" % (m.group(1) if m else "?", m.group(2) if m else "?", b.group(1) if b else "?")

    def outcomes(path, nkeys=2):
        out = []
        if os.path.exists(path):
            for line in open(path):
                m = re.match(r"(C\d\d) rc=(\d+) ?(.*)", line.strip())
                if m:
                    if m.group(2) == "1":
                        out.append("%s **caught** `%s`" % (m.group(1), " ".join(k.rstrip(":") for k in m.group(3).split()[:nkeys])))
                    else:
                        out.append("%s %s" % (m.group(1), "missed" if m.group(2) == "0" else "inconclusive"))
        return out

    first = [o.split(" `")[0] for o in outcomes(res)]
    final = outcomes(os.path.join(d, "checks.txt"))
    rows.append("| %s | `%s` %s | %s | %s | %s |" % (sid, ",".join(f.replace("funsor/", "") for f in files), str(meta.get("summary", "")).replace("|", "/").replace("\n", " ")[:110], confirm,
                                                  "; ".join(first) or "-", "; ".join(final) or "(not re-run)"))
table = "\n".join(["| seed | changed | confirmation (demo clean/patched, suite) | first run, checks as they were | final run, committed checks |",
                   "|------|---------|------------------------------------------|------------------|---------------|"] + rows)

if __name__ == "__main__":
    import sys

    if len(sys.argv) > 2 and sys.argv[1] == "--update":
        txt = open(sys.argv[2]).read()
        a, b = txt.index("<!-- SEED-TABLE-BEGIN -->") + len("<!-- SEED-TABLE-BEGIN -->"), txt.index("<!-- SEED-TABLE-END -->")
        open(sys.argv[2], "w").write(txt[:a] + "\n" + table + "\n" + txt[b:])
    else:
        print(table)
