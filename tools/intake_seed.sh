#!/bin/bash
# usage: tools/intake_seed.sh <Cxx> <out-dir> <scratch-worktree> [tier]
# Copies an independently produced change (patch.diff, demo.py, notes.md) into seeded/<Cxx>-<next letter>/, confirms it in the scratch
# worktree (demo clean/patched, repository suite with the patch) and runs the property's own check against it there; writes result.txt.
P="$1"; OUT="$2"; WT="$3"; TIER="${4:-quick}"
cd "$(dirname "$0")/.."
for l in a b c d e f g h i j k l m; do [ -e "seeded/$P-$l" ] || break; done
D="seeded/$P-$l"; mkdir -p "$D"
cp "$OUT/patch.diff" "$OUT/demo.py" "$D/"; [ -f "$OUT/notes.md" ] && cp "$OUT/notes.md" "$D/notes.md"
D="$(readlink -f "$D")"
{
echo "## $(basename $D) $(date -u +%H:%M:%S) tier=$TIER checks=$P verif=$(git rev-parse --short HEAD)"
tools/confirm_seed.sh "$D" "$WT"
TRY_WT="$WT" tools/try_seed.sh "$D/patch.diff" $TIER $P
} > "$D/result.txt" 2>&1
echo "$(basename $D): $(grep -E '^demo:|^baseline|missing|rc=' "$D/result.txt" | tr '\n' ';' | cut -c1-600)"
