#!/bin/bash
# Runs the repository's own test-suite (hooks off) in parallel and compares the set of passing tests with BASELINE.json.
# usage: tools/baseline.sh [repo-dir]
REPO="${1:-/repo}"
OUT="$(mktemp -d)"
cd "$REPO" || exit 2
env -u FUNSOR_VERIF /venv/bin/python -m pytest -q -p no:cacheprovider --timeout=900 --continue-on-collection-errors -n 16 --junitxml="$OUT/j.xml" >"$OUT/log.txt" 2>&1
tail -3 "$OUT/log.txt"
/venv/bin/python - "$OUT/j.xml" <<'PY'
import json, sys, xml.etree.ElementTree as ET
base = set(json.load(open("/root/.vp/BASELINE.json"))["stable_pass"])
passed = set()
for tc in ET.parse(sys.argv[1]).getroot().iter("testcase"):
    if not any(c.tag in ("failure", "error", "skipped") for c in tc):
        passed.add("%s::%s" % (tc.get("classname"), tc.get("name")))
missing = sorted(base - passed)
print("baseline stable_pass=%d passed_now=%d missing_from_baseline=%d new_passes=%d" % (len(base), len(passed), len(missing), len(passed - base)))
for m in missing[:20]:
    print("  MISSING", m)
sys.exit(1 if missing else 0)
PY
rc=$?
rm -rf "$OUT"
exit $rc
