#!/usr/bin/env python3
import json, sys, glob, jsonschema
schema = json.load(open("/root/.vp/EVIDENCE.schema.json"))
for p in sorted(glob.glob("/verif/evidence/*.json")):
    try:
        jsonschema.validate(json.load(open(p)), schema); print("ok", p)
    except Exception as e:
        print("INVALID", p, str(e)[:300])
