#!/bin/bash
# usage: tools/confirm_seed.sh <seed-dir> <scratch-worktree>  -- confirms: demo passes on clean tree, fails with patch; test-suite passes with patch
D="$(readlink -f "$1")"; WT="$2"
git -C "$WT" checkout -q -- . ; git -C "$WT" clean -fdq
( cd "$WT" && PYTHONPATH="$WT" timeout 600 /venv/bin/python "$D/demo.py" >/tmp/demo_clean_$(basename $WT).txt 2>&1 ); rc_clean=$?
git -C "$WT" apply "$D/patch.diff" || { echo "PATCH-DOES-NOT-APPLY"; exit 2; }
( cd "$WT" && PYTHONPATH="$WT" timeout 600 /venv/bin/python "$D/demo.py" >/tmp/demo_patched_$(basename $WT).txt 2>&1 ); rc_patched=$?
echo "demo: clean rc=$rc_clean patched rc=$rc_patched :: $(tail -1 /tmp/demo_patched_$(basename $WT).txt | cut -c1-200)"
/verif/tools/baseline.sh "$WT" 2>&1 | tail -2
git -C "$WT" checkout -q -- . ; git -C "$WT" clean -fdq
