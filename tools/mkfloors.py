#!/usr/bin/env python3
"""writes fv/floors.json from evidence/*.json of QUICK runs on the unchanged tree: floor = 35% of each required counter"""
import glob, importlib, json, os, sys

ROOT = os.path.dirname(os.path.dirname(os.path.abspath(__file__)))
sys.path.insert(0, ROOT)
out = {}
for path in sorted(glob.glob(os.path.join(ROOT, "evidence", "C*.json"))):
    e = json.load(open(path))
    cid = e["property_id"]
    if e.get("tier") != "quick":
        print("skip", cid, "(evidence is not from a quick run)")
        continue
    mod = importlib.import_module("fv.checks." + cid.lower())
    c = e["coverage"]["counters"]
    out[cid] = {name: int(c[name] * 0.35) for name in getattr(mod, "REQUIRED_COUNTERS", []) if c.get(name, 0) >= 20}
    # reference counts of declines (exceptions tolerated by the property): a run in which operations decline far more often than
    # on the reference run has lost its coverage and is INCONCLUSIVE
    out[cid]["__evaluations__"] = int(e["coverage"]["evaluations"])
    out[cid]["__declines__"] = {k: int(v) for k, v in c.items() if "declined" in k and "as-required" not in k}
json.dump(out, open(os.path.join(ROOT, "fv", "floors.json"), "w"), indent=1, sort_keys=True)
print("wrote floors for", len(out), "checks")
